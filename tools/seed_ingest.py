#!/usr/bin/env python3
"""Copy a sub-agent's deliverables (<worktree>/_seed/{patch.diff,demo.py,meta.json}) to /verif/seeded/<id>/ and stamp
the origin. usage: seed_ingest.py <worktree> <seed-id> <origin text>"""
import json, os, shutil, sys

wt, sid, origin = sys.argv[1], sys.argv[2], sys.argv[3]
src = os.path.join(wt, "_seed")
dst = os.path.join(os.path.dirname(os.path.dirname(os.path.abspath(__file__))), "seeded", sid)
os.makedirs(dst, exist_ok=True)
for f in ("patch.diff", "demo.py"):
    shutil.copy(os.path.join(src, f), os.path.join(dst, f))
try:
    meta = json.load(open(os.path.join(src, "meta.json")))
except Exception as e:  # a sub-agent may have written invalid JSON
    meta = {"meta_unreadable": str(e)}
meta["property"] = sid.split("-")[0]
meta["origin"] = origin
json.dump(meta, open(os.path.join(dst, "meta.json"), "w"), indent=1)
print("ingested", sid)
