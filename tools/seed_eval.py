#!/usr/bin/env python3
"""Evaluate seeded changes: for each /verif/seeded/<id>/ (or a staging dir) apply patch.diff to /repo, run the
repository's test suite, the demonstration and the given checks, then restore /repo.  Never commits anything.

usage: seed_eval.py <dir-with-seeds> [--tier quick] [--only ID ...] [--checks C01,C07]
A seed directory contains patch.diff, demo.py, meta.json (meta.property names the check to run).
"""
import argparse, glob, json, os, subprocess, sys, time

REPO = "/repo"
VERIF = os.path.dirname(os.path.dirname(os.path.abspath(__file__)))


def sh(cmd, cwd=None, timeout=3600):
    p = subprocess.run(cmd, shell=True, cwd=cwd, stdout=subprocess.PIPE, stderr=subprocess.STDOUT, text=True, timeout=timeout)
    return p.returncode, p.stdout


def clean_repo():
    rc, out = sh("git status --porcelain", cwd=REPO)
    return out.strip() == ""


def main():
    ap = argparse.ArgumentParser()
    ap.add_argument("root")
    ap.add_argument("--tier", default="quick")
    ap.add_argument("--only", nargs="*")
    ap.add_argument("--checks", default=None)
    ap.add_argument("--skip-tests", action="store_true")
    a = ap.parse_args()
    assert clean_repo(), "/repo has uncommitted changes"
    # the checks rewrite evidence/<id>.json on every run: keep the committed evidence (from the unchanged tree) aside
    import shutil, tempfile
    keep = tempfile.mkdtemp(prefix="evidence_keep_", dir=VERIF)
    shutil.copytree(os.path.join(VERIF, "evidence"), os.path.join(keep, "evidence"))
    rows = []
    for d in sorted(glob.glob(os.path.join(a.root, "*"))):
        sid = os.path.basename(d)
        if not os.path.exists(os.path.join(d, "patch.diff")):
            continue
        if a.only and sid not in a.only:
            continue
        meta = json.load(open(os.path.join(d, "meta.json")))
        prop = meta["property"]
        checks = a.checks.split(",") if a.checks else [prop]
        row = {"seed": sid, "property": prop}
        rc, out = sh(f"cp {d}/demo.py /repo/_seed_demo.py && /venv/bin/python _seed_demo.py; e=$?; rm -f _seed_demo.py; exit $e", cwd=REPO)
        row["demo_clean_rc"] = rc
        rc, out = sh(f"git apply {d}/patch.diff", cwd=REPO)
        if rc != 0:
            row["apply"] = "FAILED: " + out.strip()[:200]
            rows.append(row)
            print(json.dumps(row), flush=True)
            continue
        try:
            if not a.skip_tests:
                rc, out = sh("/venv/bin/python -m pytest -q -p no:cacheprovider -x 2>&1 | tail -1", cwd=REPO)
                row["tests"] = out.strip()[-60:]
            rc, out = sh(f"cp {d}/demo.py /repo/_seed_demo.py && /venv/bin/python _seed_demo.py; e=$?; rm -f _seed_demo.py; exit $e", cwd=REPO)
            row["demo_patched_rc"] = rc
            for c in checks:
                t = time.time()
                rc, out = sh(f"./check {c} --tier {a.tier}", cwd=VERIF)
                lines = [l for l in out.splitlines() if l.startswith(("VIOLATION", "KNOWN-FINDING", "HARNESS-ERROR", "[C"))]
                row[f"check_{c}"] = {"rc": rc, "s": round(time.time() - t), "first": (lines[0][:160] if lines else ""),
                                     "detail": next((l.strip()[:260] for l in out.splitlines() if l.startswith("  ") and "site=" not in l), ""),
                                     "summary": (lines[-1][:200] if lines else "")}
        finally:
            sh("git checkout -- . && git clean -fdq -e nothing 2>/dev/null; git status --porcelain", cwd=REPO)
        rows.append(row)
        print(json.dumps(row), flush=True)
    shutil.rmtree(os.path.join(VERIF, "evidence"))
    shutil.move(os.path.join(keep, "evidence"), os.path.join(VERIF, "evidence"))
    shutil.rmtree(keep, ignore_errors=True)
    assert clean_repo(), "/repo not restored"
    caught = sum(1 for r in rows if any(isinstance(v, dict) and v.get("rc") == 1 for v in r.values()))
    print(f"SUMMARY seeds={len(rows)} caught={caught}")


if __name__ == "__main__":
    main()
