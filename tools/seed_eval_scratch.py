#!/usr/bin/env python3
"""Evaluate seeded changes on scratch copies of /repo (never touches /repo or /verif/evidence):
for each seed: export /repo HEAD to /tmp/seedscratch/<id>, apply patch.diff there, run the suite and the demo there, run the
given checks with PYTHONPATH pointing at the scratch copy (development aid; the registered commands always read /repo),
remove the scratch copy.

usage: seed_eval_scratch.py /verif/seeded [--tier quick] [--only ID ...] [--checks C01,C07] [--jobs 1]
"""
import argparse, glob, json, os, shutil, subprocess, sys, time

VERIF = os.path.dirname(os.path.dirname(os.path.abspath(__file__)))
BASE = "/tmp/seedscratch"


def sh(cmd, cwd=None, env=None, timeout=3600):
    p = subprocess.run(cmd, shell=True, cwd=cwd, env=env, stdout=subprocess.PIPE, stderr=subprocess.STDOUT, text=True, timeout=timeout)
    return p.returncode, p.stdout


def main():
    ap = argparse.ArgumentParser()
    ap.add_argument("root")
    ap.add_argument("--tier", default="quick")
    ap.add_argument("--only", nargs="*")
    ap.add_argument("--checks", default=None)
    a = ap.parse_args()
    rows = []
    for d in sorted(glob.glob(os.path.join(a.root, "*"))):
        sid = os.path.basename(d)
        if not os.path.exists(os.path.join(d, "patch.diff")) or (a.only and sid not in a.only):
            continue
        meta = json.load(open(os.path.join(d, "meta.json")))
        prop = meta["property"]
        checks = a.checks.split(",") if a.checks else [prop]
        row = {"seed": sid, "property": prop}
        sc = os.path.join(BASE, sid)
        shutil.rmtree(sc, ignore_errors=True)
        os.makedirs(sc)
        try:
            sh(f"git -C /repo archive HEAD | tar -x -C {sc}")
            rc, out = sh(f"cp {d}/demo.py _seed_demo.py && /venv/bin/python _seed_demo.py; e=$?; rm -f _seed_demo.py; exit $e", cwd=sc)
            row["demo_clean_rc"] = rc
            rc, out = sh(f"patch -p1 -s < {d}/patch.diff", cwd=sc)
            if rc != 0:
                row["apply"] = "FAILED: " + out.strip()[:200]
                rows.append(row)
                print(json.dumps(row), flush=True)
                continue
            rc, out = sh("/venv/bin/python -m pytest -q -p no:cacheprovider -x 2>&1 | tail -1", cwd=sc)
            row["tests"] = out.strip()[-60:]
            rc, out = sh(f"cp {d}/demo.py _seed_demo.py && /venv/bin/python _seed_demo.py; e=$?; rm -f _seed_demo.py; exit $e", cwd=sc)
            row["demo_patched_rc"] = rc
            env = dict(os.environ, PYTHONPATH=sc, VERIF_EVIDENCE_DIR=os.path.join(sc, "_evidence"))
            for c in checks:
                t = time.time()
                rc, out = sh(f"./check {c} --tier {a.tier}", cwd=VERIF, env=env)
                lines = [l for l in out.splitlines() if l.startswith(("VIOLATION", "KNOWN-FINDING", "HARNESS-ERROR", "[C"))]
                row[f"check_{c}"] = {"rc": rc, "s": round(time.time() - t), "first": (lines[0][:160] if lines else out[-300:]),
                                     "detail": next((l.strip()[:260] for l in out.splitlines() if l.startswith("  ") and "site=" not in l), ""),
                                     "summary": (lines[-1][:200] if lines else "")}
        finally:
            shutil.rmtree(sc, ignore_errors=True)
        rows.append(row)
        print(json.dumps(row), flush=True)
    caught = sum(1 for r in rows if any(isinstance(v, dict) and v.get("rc") == 1 for v in r.values()))
    print(f"SUMMARY seeds={len(rows)} caught={caught}")


if __name__ == "__main__":
    main()
