#!/bin/bash
# convenience: run every registered quick (or thorough) check and print the summary lines
cd "$(dirname "$0")"
TIER=${1:-quick}
for id in $(python3 -c "import json; print(' '.join(c['property_id'] for c in json.load(open('MANIFEST.json'))['checks']))"); do
  s=$(date +%s)
  out=$(./check $id --tier $TIER 2>&1); rc=$?
  echo "$id rc=$rc $(( $(date +%s) - s ))s :: $(echo "$out" | grep -E '^\[C|^VIOLATION|^KNOWN|^HARNESS' | head -5 | cut -c1-330)"
done
