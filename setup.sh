#!/bin/bash
# Build the overlay venv used by every check (offline; idempotent).
# /venv holds mathy_core's own dependencies (numpy, colr, wasabi, ...); the overlay adds z3-solver
# (and crosshair-tool, used only by the optional cross-check) from the offline wheelhouse.
set -e
cd "$(dirname "$0")"
V=.venv
if [ -x $V/bin/python ] && $V/bin/python -c "import z3, numpy, mathy_core" >/dev/null 2>&1; then
  exit 0
fi
rm -rf $V
/venv/bin/python -m venv $V
SP=$($V/bin/python -c "import sysconfig; print(sysconfig.get_paths()['purelib'])")
printf '/venv/lib/python3.12/site-packages\n/repo\n' > "$SP/_overlay.pth"
PIP_NO_INDEX=1 $V/bin/python -m pip install -q --no-index --find-links /opt/veriftools/wheels z3-solver >/dev/null
PIP_NO_INDEX=1 $V/bin/python -m pip install -q --no-index --find-links /opt/veriftools/wheels crosshair-tool >/dev/null 2>&1 || true
$V/bin/python -c "import z3, numpy, mathy_core; print('overlay ok', z3.get_version_string())"
