#!/usr/bin/env python3
"""Regenerate MANIFEST.json from the table below (kept in one place so it is always valid)."""
import json, os

HERE = os.path.dirname(os.path.abspath(__file__))
BASE = ("cd /repo && /venv/bin/python -m pytest -ra -q -p no:cacheprovider --timeout=900 "
        "--continue-on-collection-errors")

CLAIMED = {
    "C01": dict(
        text="Bounded symbolic execution of the real rule code with z3: for every skeleton in the stated families, every "
             "node and every rule-option, every payload-dependent branch is decided by the solver and the final query "
             "'exists payloads and an assignment with before != after on the common domain' must be unsat. Holds for all "
             "real-valued payloads/assignments inside the tree-size bound; nothing is claimed beyond it. Also every 2-step "
             "sequence of (rule-option, node) choices on rule instances that live for the whole sequence (stale state between "
             "calls), judged for value only.",
        note="Trusts z3 (nlsat), the proxy model of Python numbers (floats as exact reals), the numpy/math stubs listed in "
             "the evidence, and the independent evaluator vf/zeval.py. Counterexamples are replayed on the unstubbed code "
             "with exact rational arithmetic before being reported.",
        tech="path-forking symbolic execution of the Python source + z3 nonlinear real arithmetic (bounded tree size)",
        ref="DESIGN.md section 4 C01"),
    "C02": dict(
        text="Same engine as C01 on trees rooted at '=': the solver must refute 'the two equations differ in truth value at "
             "some assignment where both are defined' and 'a newly introduced divisor can be zero' for every applicable "
             "(node, rule-option) on every path.",
        note="As C01. Equation families: all L=R with small sides, the shipped balanced-move examples, every other rule "
             "example wrapped as 'input = w', and nesting contexts for the moved term.",
        tech="path-forking symbolic execution + z3 (equation equivalence queries, bounded)",
        ref="DESIGN.md section 4 C02"),
    "C06": dict(
        text="Bounded symbolic execution of can_apply_to/apply_to/find_node/find_nodes on trees with solver-variable payloads: "
             "on every feasible path a positive can_apply_to is followed by an apply_to that returns an expression, a deep "
             "snapshot shows can_apply_to changed nothing, a second call answers the same, and the node search equals the "
             "in-order list filtered by can_apply_to with exact r_index values. 'The same answer for the same tree' is also "
             "asked across an in-place rewrite by another rule, against the same tree built anew and a new rule instance.",
        note="Trusts z3 for branch feasibility and the proxy/stub model; problems are re-run on concrete payloads without "
             "stubs before being reported. can_apply_to raising is recorded in the evidence, not judged.",
        tech="path-forking symbolic execution of the Python source with z3-decided branches (bounded tree size)",
        ref="DESIGN.md section 4 C06"),
    "C07": dict(
        text="Same exploration as C06, applied to node.clone_from_root(): structure audit of every result, context subtrees "
             "off the root->target path preserved in order (payload identity by solver term), variable set unchanged, "
             "deep snapshot of the source tree unchanged - on every feasible path of the rule code.",
        note="As C06. 'Context' is the set of subtrees hanging off the path from the root to the rewritten node's parent.",
        tech="path-forking symbolic execution with z3-decided branches + structural audit (bounded tree size)",
        ref="DESIGN.md section 4 C07"),
    "C13": dict(
        text="Every tree up to the size bound over the full node alphabet (one-operand nodes with the operand on either "
             "side, built through the public constructors): clone() reproduces class/id/payload/identifier/operand side of "
             "every node with no shared object and evaluates identically for every assignment (z3 validity over the real "
             "evaluate of both copies); every mutation kind on either copy leaves the other unchanged; "
             "inner.clone_from_root() returns the copy of that node at the same root path inside a complete disjoint copy.",
        note="Payload equality is identity of solver terms; selectors (inner node, mutation, side) are explored "
             "exhaustively by the engine; str() equality on two concrete payload sets per tree.",
        tech="path-forking symbolic execution + z3 validity of evaluate(original) == evaluate(clone) (bounded tree size)",
        ref="DESIGN.md section 4 C13"),
    "C14": dict(
        text="All binary tree shapes with <= 4 levels (existence bits, traversal order, start node, stop position and "
             "queried node are solver variables; every satisfying value is explored): callback sequences equal the "
             "recursive reference definitions cut at the stop position, look-ups agree with the link structure.",
        note="The solver only decides feasibility of selectors here (stated in DESIGN.md); assertions run on the real objects.",
        tech="bounded exhaustive path exploration over solver-enumerated shapes and selectors (z3 feasibility)",
        ref="DESIGN.md section 4 C14"),
    "C15": dict(
        text="All binary tree shapes with <= 4 levels (thorough: plus 5-level shapes up to 10 nodes, size bound as a "
             "pseudo-boolean solver constraint) and every node: rotate() keeps the in-order id sequence, link consistency, "
             "grandparent slot, parent/child inversion; root rotation is the identity.",
        note="The solver only decides feasibility of shape bits and the node selector.",
        tech="bounded exhaustive path exploration over solver-enumerated shapes and selectors (z3 feasibility)",
        ref="DESIGN.md section 4 C15"),
    "C03": dict(
        text="Bounded symbolic execution of the real recursive-descent parser on N solver-variable token kinds (every "
             "check/eat/contains decision forks through z3); on every feasible path a reference recogniser/evaluator of the "
             "documented grammar runs on the same symbols: accept iff accept, and on accept z3 proves the parsed tree equals "
             "the documented reading for every assignment of the variables.",
        note="Trusts the reference grammar (DESIGN.md appendix A, written from the parser docstring and the clauses of C03), "
             "z3, and vf/zeval.py. Token level; tied to strings by rendering counterexamples/validated paths to text and "
             "re-running the real tokenizer+parser, and by C11. Unspecified corners (CONST! followed by a factor, -CONST!) excluded.",
        tech="symbolic execution of the parser over symbolic token kinds + differential check against a reference grammar, "
             "value equality by z3 (bounded token count)",
        ref="DESIGN.md section 4 C03, appendix A"),
    "C10": dict(
        text="The C03 exploration judged for the error contract (tree passing the structure audit, or ParserException/"
             "ValueError; nothing else), plus the public parse(text) on strings of solver-variable code points, plus sticky "
             "state: a query after an arbitrary earlier parse and one inductive havoc step over all per-parse attributes.",
        note="float()/int() of a symbolic digit string are modelled by their documented contract (Horner); RecursionError "
             "needs nesting deeper than the token bound and is outside the claim as the property says.",
        tech="symbolic execution of tokenizer+parser over symbolic characters / token kinds, havoc-state inductive step (bounded)",
        ref="DESIGN.md section 4 C10"),
    "C11": dict(
        text="Bounded symbolic execution of the real tokenizer on strings whose characters are solver variables over all "
             "code points; per path (= class of strings) the token list is compared with a reference tokenizer from the "
             "statement, token texts / losslessness / padding relation by z3 validity over every string of the class.",
        note="Tokenizer.functions is replaced by a dict subclass that compares keys with the solver; both padding modes.",
        tech="symbolic execution over symbolic characters (SymStr) + z3 validity queries (bounded string length)",
        ref="DESIGN.md section 4 C11"),
    "C12": dict(
        text="Every history of parse/tokenize/tokenize-then-edit/clear_cache calls up to the bound over a pool of texts, then "
             "a query asked twice: result identical to a fresh parser's. Operation selectors are solver variables whose "
             "every value is explored.",
        note="The solver decides selector feasibility only (stated); texts from a fixed pool of 6.",
        tech="bounded exhaustive exploration of call histories via solver-enumerated selectors",
        ref="DESIGN.md section 4 C12"),
    "C04": dict(
        text="Every tree up to the size bound (payloads chosen by solver-variable selectors from concrete pools, all "
             "combinations) and every one-step rewrite result of concrete start trees: str(tree) is accepted by the real "
             "parser, has the same variables, and z3 proves tree = re-parsed tree for every assignment (equations: same "
             "truth value).",
        note="Text needs digits, hence concrete payload pools (stated in the evidence); the assignment is unbounded.",
        tech="bounded exhaustive tree enumeration through the engine + z3 equivalence of tree and re-parsed tree",
        ref="DESIGN.md section 4 C04"),
    "C05": dict(
        text="Bounded symbolic execution of the real evaluate on trees whose constants and variable values are solver "
             "variables with lazily decided Python type: returned values equal the exact result for every value on the path "
             "(z3 validity; integers exact at any magnitude, so a 64-bit wrap is a counterexample), non-finite results only "
             "where undefined, missing/None variables raise ValueError while present values (0 included) do not, equations "
             "return the common value or raise only when the sides differ, no other exception.",
        note="NOT claimed: the 'within a few ulps' IEEE clause (floats are exact reals in the model). numpy/math stubs as listed.",
        tech="path-forking symbolic execution of evaluate + z3 validity against an independent exact evaluator (bounded tree size)",
        ref="DESIGN.md section 4 C05, section 8"),
    "C16": dict(
        text="Six bounded sub-checks on the real util functions: has_like_terms gives one answer over every permutation and "
             "grouping of a multiset of terms that share solver-variable payloads; terms_are_like symmetric/reflexive on all "
             "pairs of small trees; get_term_ex(parse(text)) returns the written triple over numeral pools; z3 proves "
             "make_term(c,v,e) = c*v^e for all c,e and the triple reads back; factor(n) is the divisor-pair table for every "
             "n in range (solver-enumerated); the term predicates raise nothing on any node of any tree up to the size bound.",
        note="Text-based sub-check (c) uses concrete numeral pools; (e) is solver-driven enumeration of n, said plainly.",
        tech="path-forking symbolic execution of util.* with z3 payloads + z3 equivalence for make_term (bounded)",
        ref="DESIGN.md section 4 C16"),
    "C18": dict(
        text="Every binary tree shape with <= 4 levels (thorough: plus 5-level shapes up to 9 nodes, expression-node trees): "
             "measure() runs on the real nodes, the unit multipliers are positive real solver variables, and every tidy-tree "
             "invariant (y = depth*uy, child sides, centring, level order and separation >= ux, bounds = bounding box, "
             "repeatability over three layouts, mirror symmetry) is a z3 validity query over all ux, uy.",
        note="Shape bits are solver variables explored exhaustively; offsets inside measure() are concrete halves.",
        tech="bounded exhaustive shapes via solver-enumerated bits + z3 validity over symbolic unit multipliers",
        ref="DESIGN.md section 4 C18"),
    "C08": dict(
        text="Documented schemas of all nine rules (and documented non-applicability), instantiated independently of the rule "
             "code from operand sub-trees with solver-variable coefficients/exponents in 14 surrounding contexts: on every "
             "feasible path the rule accepts the form and the result matches the documented shape (operands by structural "
             "signature, commutative operands in either order, numeric factors by z3 validity).",
        note="The schema table is DESIGN.md section 4 C08; chained variants that the code special-cases are not demanded.",
        tech="path-forking symbolic execution of the rules on schema instances + z3 validity of numeric factors (bounded operand library)",
        ref="DESIGN.md section 4 C08"),
    "C09": dict(
        text="Bounded unrolling: from ~700 start expressions every sequence of k (rule-option, applicable node) choices - found "
             "by find_nodes on long-lived rule instances, applied to clone_from_root() copies - keeps every state well formed, "
             "printable/re-parsable, equivalent to the START for every assignment (z3) and leaves earlier states untouched; "
             "plus an in-place query/rewrite/re-query mode for stale rule-instance state. Longer histories rest on the "
             "inductive step C01+C02+C04+C07 over arbitrary well-formed trees.",
        note="Payloads are concrete (states must be printed); folded float constants are read as the simplest rational they "
             "round to (within 1e-12), which is the property's rounding allowance.",
        tech="bounded unrolling with solver-enumerated choices + z3 equivalence with the start state",
        ref="DESIGN.md section 4 C09"),
    "C17": dict(
        text="The problem generators run with every draw from `random` replaced by a solver variable or a solver-enumerated "
             "pick: every class of draw sequences inside the bounds (a superset of every seed) yields text the real parser "
             "accepts, positive complexity, like terms where promised, distinct variables respecting exclusions, splits that "
             "sum to their input.",
        note="Weakest fit of the family (said in DESIGN.md): variable pools shrunk, index draws bounded, random.random() "
             "concretised to 6 representatives, numbers rendered from two path models; breadth-first under a per-"
             "configuration time budget, so exhaustive only where the budget sufficed (reported).",
        tech="symbolic execution of the generators with solver-variable random draws (bounded draws, shrunk pools)",
        ref="DESIGN.md section 4 C17"),
}

PENDING = {}

def main():
    checks = []
    for pid, c in sorted(CLAIMED.items()):
        checks.append({
            "property_id": pid,
            "quick_cmd": f"./check {pid} --tier quick",
            "thorough_cmd": f"./check {pid} --tier thorough",
            "evidence_file": f"/verif/evidence/{pid}.json",
            "replay_cmd_template": f"./check {pid} --replay {{path}}",
            "engine": "symx",
            "level_claimed": {"category": "model_checking", "text": c["text"], "design_ref": c["ref"]},
            "level_note": c["note"],
            "technique": c["tech"],
        })
    props = [json.loads(l)["id"] for l in open(os.path.join(HERE, "properties.jsonl"))]
    na = [{"property_id": p, "reason": PENDING.get(p, "check not built yet in this revision (under construction); "
           "no claim is made")} for p in props if p not in CLAIMED]
    man = {
        "version": 1,
        "setup_cmd": "./setup.sh",
        "hooks": {"guard": "MATHY_CORE_VERIF", "enable": "no source hooks: stubs are injected from the harness process "
                  "through module attributes; the guard variable is exported by ./check but read by nothing in /repo",
                  "baseline_off_cmd": BASE, "source_commits": [], "add_only": True},
        "engines": [{"name": "symx", "path": "/verif/vf/symx.py", "serves_properties": sorted(CLAIMED),
                     "kind_free_text": "path-forking symbolic executor for Python over z3 (proxies for numbers, "
                     "characters, token kinds and choices; DFS over decision prefixes; solver decides every branch and "
                     "the final property query; concrete replay on the unstubbed code)"}],
        "checks": checks,
        "not_applicable": na,
        "notes": "All checks: ./check <ID> [--tier quick|thorough] [--replay PATH]; exit 0 held / 1 VIOLATION / 3 harness error.",
    }
    with open(os.path.join(HERE, "MANIFEST.json"), "w") as f:
        json.dump(man, f, indent=1)
    print("claimed", sorted(CLAIMED), "not_applicable", [x["property_id"] for x in na])

if __name__ == "__main__":
    main()
