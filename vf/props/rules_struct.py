"""C06 (applicable => appliable, purity of can_apply_to, exact node search) and
C07 (structural soundness of rewritten trees, context intact, source tree untouched).

The same check function runs first on a tree with symbolic payloads (every payload-dependent branch
of the rule code decided by z3, all feasible paths explored) and, when it reports a problem, again on
the concrete payloads of the path's model without any stub: only reproduced problems are reported.
"""
from __future__ import annotations

import random
from typing import Any, Callable, Dict, List, Optional, Tuple

import z3

from mathy_core import expressions as E

from .. import shims
from ..core import Report, Violation, collect, out_of_time, pmap, seed
from ..rulekit import RULES, RULE_BY_NAME, rule_type_label, skel_json
from ..symx import Ctx, PathResult, Stats, SymNum, Unsupported, explore
from ..trees import (
    ConcreteProvider,
    Opaque,
    OpaqueProvider,
    SymProvider,
    Touched,
    audit,
    build,
    grid_text,
    inorder,
    kind,
    model_payloads,
    preorder,
    root_of,
    shape,
    sk_size,
    sk_str,
    slot_roles,
    use_grid,
    variables_of,
)
from . import value as V

Problem = Tuple[str, str]
SEARCH_MAX = {"n": 9}


def pkey(v: Any) -> str:
    if type(v) is Opaque:
        return f"o{id(v)}"
    if type(v) is SymNum or isinstance(v, SymNum):
        return f"z{z3.simplify(v.z).get_id()}"
    return repr(v)


def txt(root: Any) -> str:
    """Text for messages: str(tree) only on concrete trees (formatting a proxy would fork per value)."""
    for n in preorder(root):
        if kind(n) == "const" and (type(n.value) is Opaque or type(n.value) is SymNum or isinstance(n.value, SymNum)):
            from ..trees import sig

            return sig(root)
    return V.safe_str(root)


def full_sig(node: Any) -> str:
    from ..trees import sig

    return sig(node, pkey)


def snapshot(root: Any) -> List[Any]:
    """Deep snapshot: identity, kind, links, payload for every node in pre-order."""
    out = []
    for n in preorder(root):
        out.append((id(n), kind(n), id(n.left) if n.left is not None else 0, id(n.right) if n.right is not None else 0,
                    id(n.parent) if n.parent is not None else 0,
                    pkey(n.value) if kind(n) == "const" else (n.identifier if kind(n) == "var" else ""),
                    getattr(n, "child_on_left", None)))
    return out


def safe(f: Callable[[], Any]) -> Tuple[Optional[Any], Optional[BaseException]]:
    try:
        return f(), None
    except Exception as e:  # engine signals are BaseException and pass through
        return None, e


# ------------------------------------------------------------------------------------------------
# C06
# ------------------------------------------------------------------------------------------------


def c06_node(sk: Any, idx: int, rule_label: str, prov: Any, info: Dict[str, Any]) -> List[Problem]:
    root = build(sk, prov)
    node = preorder(root)[idx]
    rule = RULE_BY_NAME[rule_label]()
    snap = snapshot(root)
    ok, err = safe(lambda: bool(rule.can_apply_to(node)))
    if err is not None:
        info["can_apply_raised"] = type(err).__name__
        return []
    problems: List[Problem] = []
    if snapshot(root) != snap:
        problems.append(("impure", f"can_apply_to modified the tree '{txt(root)}'"))
    ok2, err2 = safe(lambda: bool(rule.can_apply_to(node)))
    if err2 is not None or ok2 != ok:
        problems.append(("unstable", f"second can_apply_to answered {ok2 if err2 is None else type(err2).__name__}, first {ok}"))
    if not ok:
        return problems
    info["applicable"] = True
    info["type"] = rule_type_label(rule, node)
    info["node"] = shape(node)
    text = txt(root)
    change, err = safe(lambda: rule.apply_to(node))
    if err is not None:
        problems.append(("apply-raised", f"{rule_label}.can_apply_to is True at node {shape(node)} of '{text}' but apply_to "
                         f"raised {type(err).__name__}: {str(err)[:120]}"))
        return problems
    res = getattr(change, "result", None)
    if not isinstance(res, E.MathExpression):
        problems.append(("no-result", f"apply_to returned a change whose result is {type(res).__name__} for '{text}'"))
    return problems


def c06_search(sk: Any, rule_label: str, prov: Any, info: Dict[str, Any]) -> List[Problem]:
    root = build(sk, prov)
    rule = RULE_BY_NAME[rule_label]()
    order = inorder(root)
    found, err = safe(lambda: rule.find_nodes(root))
    if err is not None:
        info["find_raised"] = type(err).__name__
        return []
    problems: List[Problem] = []
    expected = []
    for n in order:
        ok, e = safe(lambda n=n: bool(rule.can_apply_to(n)))
        if e is not None:
            info["can_apply_raised"] = type(e).__name__
            return []
        if ok:
            expected.append(n)
    info["applicable"] = bool(expected)
    if [id(n) for n in found] != [id(n) for n in expected]:
        problems.append(("find-nodes", f"find_nodes on '{txt(root)}' returned {[shape(n) for n in found]}, "
                         f"applicable in-order nodes are {[shape(n) for n in expected]}"))
    for i, n in enumerate(order):
        if getattr(n, "r_index", None) != i:
            problems.append(("r-index", f"node {i} ({shape(n)}) of '{txt(root)}' has r_index {getattr(n, 'r_index', None)}"))
            break
    first, err = safe(lambda: rule.find_node(root))
    if err is not None:
        problems.append(("find-node-raised", f"find_node raised {type(err).__name__}"))
    else:
        want = expected[0] if expected else None
        if first is not want:
            problems.append(("find-node", f"find_node on '{txt(root)}' returned "
                             f"{shape(first) if first is not None else None}, first applicable is "
                             f"{shape(want) if want is not None else None}"))
    return problems


# ------------------------------------------------------------------------------------------------
# C07
# ------------------------------------------------------------------------------------------------


def offpath(node: Any) -> List[str]:
    """Signatures of the subtrees hanging off the path root -> node's parent, in left-to-right order."""
    left: List[str] = []
    right: List[str] = []
    cur = node
    while cur.parent is not None:
        p = cur.parent
        if p.left is cur:
            if p.right is not None:
                right.append(full_sig(p.right))
        else:
            if p.left is not None:
                left.append(full_sig(p.left))
        cur = p
    # `left` was collected bottom-up: the outermost left sibling comes first in reading order
    return list(reversed(left)) + right


def match_in_order(root: Any, wanted: List[str]) -> int:
    """Greedy left-to-right matching of whole subtrees; returns how many of `wanted` were found in order."""
    i = 0

    def rec(n: Any) -> None:
        nonlocal i
        if n is None or i >= len(wanted):
            return
        if full_sig(n) == wanted[i]:
            i += 1
            return
        rec(n.left)
        rec(n.right)

    rec(root)
    return i


def c07_node(sk: Any, idx: int, rule_label: str, prov: Any, info: Dict[str, Any]) -> List[Problem]:
    src_root = build(sk, prov)
    src_node = preorder(src_root)[idx]
    src_snap = snapshot(src_root)
    node, err = safe(lambda: src_node.clone_from_root())
    if err is not None:
        info["clone_raised"] = type(err).__name__
        return []
    root = root_of(node)
    rule = RULE_BY_NAME[rule_label]()
    ok, err = safe(lambda: bool(rule.can_apply_to(node)))
    if err is not None or not ok:
        return []
    info["applicable"] = True
    info["type"] = rule_type_label(rule, node)
    info["node"] = shape(node)
    text = txt(root)
    wanted = offpath(node)
    vars_before = variables_of(root)
    work_snap = snapshot(root)
    change, err = safe(lambda: rule.apply_to(node))
    if err is not None or getattr(change, "result", None) is None:
        info["apply_raised"] = True
        return []
    problems: List[Problem] = []
    try:
        new_root = root_of(change.result)
    except AssertionError:
        return [("cycle", f"{rule_label} on '{text}': parent chain of the result does not terminate")]
    for p in audit(new_root):
        problems.append(("audit:" + p.split(" ")[0], f"{rule_label} at {shape(node)} of '{text}': result '{txt(new_root)}' - {p}"))
    if not problems:
        got = match_in_order(new_root, wanted)
        if got != len(wanted):
            problems.append(("context", f"{rule_label} at node {info['node']} of '{text}': context subtree #{got} "
                             f"is missing or out of order in '{txt(new_root)}'"))
        va = variables_of(new_root)
        if va != vars_before:
            problems.append(("variables", f"{rule_label} on '{text}': variables {vars_before} became {va} in "
                             f"'{txt(new_root)}'"))
    if snapshot(src_root) != src_snap:
        problems.append(("source-modified", f"{rule_label} applied to a clone of '{text}' modified the tree it was cloned from"))
    if rule_label.startswith("BalancedMove") and snapshot(root) != work_snap:
        problems.append(("source-modified", f"{rule_label} (which works on its own clone) modified the tree it was given: '{text}'"))
    return problems


# ------------------------------------------------------------------------------------------------
# driver
# ------------------------------------------------------------------------------------------------


def run_check(prop: str, fn: Callable[[Any, Dict[str, Any]], List[Problem]], sk: Any, label: str, site0: str,
              part: Dict[str, Any], replay: Dict[str, Any], bounded_mode: str = "grid") -> None:
    st: Stats = part["stats"]

    def make(mode: str):
        def h(ctx: Ctx) -> Any:
            prov = SymProvider(ctx, mode)
            info: Dict[str, Any] = {}
            with shims.installed():
                problems = fn(prov, info)
            pay = None
            if problems:
                pay = model_payloads(ctx.ensure_model(), prov)
            return problems, info, pay
        return h

    # payload-independent outcome?  (the code never looks at a payload: one concrete run decides all)
    try:
        info0: Dict[str, Any] = {}
        probs0 = fn(OpaqueProvider(), info0)
        roles = slot_roles(sk)
        pay0 = {s: (2 if roles[s] != "coef" else 3) for s in roles}
        results = [PathResult("ok", (probs0, info0, pay0 if probs0 else None))]
        st.paths += 1
        part["prefiltered"] = part.get("prefiltered", 0) + 1
    except Touched:
        results = explore(make("real"), st, max_paths=4000)
        if any(r.status == "needs_bound" for r in results):
            results = explore(make(bounded_mode), st, max_paths=6000)
    nontrivial = False
    for r in results:
        if r.status != "ok":
            part["inconclusive"] += 1
            if len(part["inconclusive_samples"]) < 3:
                part["inconclusive_samples"].append(f"{label} {sk_str(sk)}: {r.status} {r.detail}")
            continue
        problems, info, pay = r.value
        for k in ("can_apply_raised", "find_raised", "clone_raised"):
            if k in info:
                part["reach"][k] = part["reach"].get(k, 0) + 1
        if info.get("applicable"):
            nontrivial = True
            part["queries"] += 1
            part["reach"][label.split("@")[0]] = part["reach"].get(label.split("@")[0], 0) + 1
        if not problems:
            if info.get("applicable"):
                part["proved"] += 1
            continue
        info2: Dict[str, Any] = {}
        try:
            again = fn(ConcreteProvider(pay), info2)
        except Exception as e:
            again = []
        labels = {p[0] for p in problems}
        hit = [p for p in again if p[0] in labels]
        if hit:
            lab, text = hit[0]
            keys = {"rule": label.split("@")[0], "type": str(info2.get("type", "-")), "node": str(info2.get("node", "-")),
                    "fault": lab}
            rp = dict(replay, payloads={str(k): v for k, v in pay.items()}, observed=text)
            part["violations"].append(Violation(prop, f"{label.split('@')[0]}:{keys['type']}", keys, text, rp))
        else:
            part["engine_mismatch"] += 1
            part["mismatch_samples"].append(f"{label} {sk_str(sk, pay)}: {problems[0][1][:200]}")
    if nontrivial:
        part["nontrivial"] += 1
        if len(part["samples"]) < 2:
            part["samples"].append({"skeleton": sk_str(sk), "check": label, "paths": len(results)})


def case_worker(item: Tuple[str, Any, str]) -> Dict[str, Any]:
    prop, sk, rule_label = item
    part = V.new_part()
    n = sk_size(sk)
    base = {"kind": "rule_struct", "skeleton": skel_json(sk), "rule": rule_label, "property": prop}
    for idx in range(n):
        if out_of_time():
            part["skipped"] = part.get("skipped", 0) + 1
            continue
        part["cases"] += 1
        if prop == "C06":
            fn = lambda prov, info, idx=idx: c06_node(sk, idx, rule_label, prov, info)
        else:
            fn = lambda prov, info, idx=idx: c07_node(sk, idx, rule_label, prov, info)
        run_check(prop, fn, sk, f"{rule_label}@{idx}", rule_label, part, dict(base, node_index=idx, check="node"))
    if prop == "C06" and not out_of_time() and n <= SEARCH_MAX["n"]:
        part["cases"] += 1
        run_check(prop, lambda prov, info: c06_search(sk, rule_label, prov, info), sk, f"{rule_label}@search", rule_label,
                  part, dict(base, check="search"), bounded_mode="tiny")
    uniq = {}
    for v in part["violations"]:
        uniq.setdefault(v.ident(), v)
    part["violations"] = list(uniq.values())
    return part


def replay_record(rec: Dict[str, Any]) -> Tuple[bool, str]:
    from ..rulekit import skel_unjson

    if rec.get("kind") == "sequence":
        from . import sequences

        return sequences.replay_record(rec)
    sk = skel_unjson(rec["skeleton"])
    pay = {int(k): v for k, v in rec["payloads"].items()}
    info: Dict[str, Any] = {}
    if rec["check"] == "search":
        probs = c06_search(sk, rec["rule"], ConcreteProvider(pay), info)
    elif rec["property"] == "C06":
        probs = c06_node(sk, rec["node_index"], rec["rule"], ConcreteProvider(pay), info)
    else:
        probs = c07_node(sk, rec["node_index"], rec["rule"], ConcreteProvider(pay), info)
    return bool(probs), "; ".join(p[1] for p in probs)


def run(prop: str, tier: str) -> int:
    rep = Report(prop, tier)
    sks1, b1 = V.skeletons("C01", tier)
    sks2, b2 = V.skeletons("C02", "quick")
    sks = sks1 + sks2
    rep.bounds = {"expressions": b1, "equations": b2}
    rep.functions = V.FUNCTIONS + ["mathy_core.rule.BaseRule.find_node/find_nodes", "MathExpression.clone_from_root/clone"]
    rep.stubs = shims.STUBS
    use_grid("quick")  # the 25-value grid is used by C05/C08/C16 thorough; here the families grow instead
    rep.bounds["grid"] = grid_text()
    if prop == "C06":
        rep.explanation = (
            "Per (skeleton, node, rule-option) the real can_apply_to/apply_to run on symbolic payloads; on every feasible path: "
            "a deep snapshot (identity, links, payload terms) is unchanged by can_apply_to, a second call answers the same, and "
            "if it answered True apply_to returns a change whose result is an expression. Per (skeleton, rule-option): "
            "find_nodes equals the in-order list filtered by can_apply_to with r_index = in-order position on every node, "
            "find_node is its first element. The solver decides the payload-dependent branches of the rule code.")
    else:
        rep.explanation = (
            "Per (skeleton, node, rule-option), applied to node.clone_from_root() as search agents do: structure audit of the "
            "result (link consistency, arity, no node object twice, parentless root), every subtree hanging off the path from "
            "the root to the rewritten node's parent is still present with the same signature and in the same left-to-right "
            "order, the variable set is unchanged, and a deep snapshot of the source tree (and, for the balanced move, of the "
            "tree it was given) is unchanged. Payload equality inside signatures is identity of the solver terms.")
    rep.bounds["search_grid"] = "find_nodes/find_node check: coefficients that must be concrete range over {-2, 0, 1, 3, 6, 0.5}"
    rep.assumptions = ["tree families and payload domains as in C01/C02; can_apply_to raising is recorded, not judged"]
    budget = 420 if tier == "quick" else 900
    items = [(prop, s, name) for s in sks for name, _ in RULES
             if not (s in V.AM_ONLY and name.startswith("DistributiveFactorOut"))]
    random.Random(seed()).shuffle(items)
    items.sort(key=lambda it: -sk_size(it[1]))  # biggest first: better balance over the workers
    SEARCH_MAX["n"] = 9 if tier == "quick" else 10  # measured: the search sub-check on 11-node trees costs ~3 s per (tree, rule)
    rep.bounds["search_max_nodes"] = SEARCH_MAX["n"]
    collect(rep, pmap(case_worker, items, budget_s=budget, chunk=6))
    from . import sequences

    sequences.cross(rep, tier, prop)
    rep.extra["skeletons"] = len(sks)
    return rep.finish(required_reach=[name for name, _ in RULES])
