"""C03 (grammar / order of operations) and C10 (totality, closed error contract, no sticky state).

Token level: N token kinds are solver variables; the real ExpressionParser.parse runs on them through a
Tokenizer subclass assigned to the public `parser.tokenizer` attribute, so every `check/eat/contains`
decision forks through z3.  On every feasible path the outcome is compared with a reference
recursive-descent recogniser/evaluator written from the documented grammar (DESIGN.md appendix A) that
runs on the same symbolic kinds; accepted inputs are compared by value for all variable assignments.
"""
from __future__ import annotations

import itertools
import random
from fractions import Fraction
from typing import Any, Dict, List, Optional, Tuple

import z3

from mathy_core import parser as P
from mathy_core.expressions import MathExpression
from mathy_core.parser import ExpressionParser, ParserException
from mathy_core.tokenizer import TOKEN_TYPES, Token, Tokenizer

from .. import shims
from ..core import Report, Violation, collect, out_of_time, pmap, seed
from ..symx import Budget, Ctx, SelInt, Stats, SymInt, Unsupported, _arm, explore, frac_of
from ..trees import audit, kind, preorder
from ..zeval import MAX_UNFOLD, Undefined, ceval, close, powr_axioms, var, zeval, _ipow
from ..shims import FACT, POWR
from . import value as V

T = TOKEN_TYPES
KINDS = [T.Constant, T.Variable, T.Plus, T.Minus, T.Multiply, T.Divide, T.Exponent, T.Factorial, T.OpenParen,
         T.CloseParen, T.Function, T.Equal]
KNAME = {T.Constant: "CONST", T.Variable: "VAR", T.Plus: "+", T.Minus: "-", T.Multiply: "*", T.Divide: "/",
         T.Exponent: "^", T.Factorial: "!", T.OpenParen: "(", T.CloseParen: ")", T.Function: "FUNC", T.Equal: "=",
         T.EOF: "EOF"}
TEXT = {T.Plus: "+", T.Minus: "-", T.Multiply: "*", T.Divide: "/", T.Exponent: "^", T.Factorial: "!", T.OpenParen: "(",
        T.CloseParen: ")", T.Function: "sgn", T.Equal: "="}
CONST_TEXT = ["2", "3", "2.5", "7", "11", "13", "5", "17", "19", "23"]
VAR_TEXT = "xyzwuvpqrt"


def token_text(i: int, k: int) -> str:
    if k == T.Constant:
        return CONST_TEXT[i]
    if k == T.Variable:
        return VAR_TEXT[i]
    return TEXT[k]


class LazyVal:
    """A token's text: resolved only when its kind is already determined on the path (never forks)."""

    def __init__(self, tok: "SymToken"):
        self.tok = tok

    def _text(self) -> str:
        return self.tok.resolve()

    def __str__(self) -> str:
        return self._text()

    def __format__(self, spec: str) -> str:
        return self._text()

    def __contains__(self, ch: str) -> bool:
        return ch in self._text()

    def __int__(self) -> int:
        return int(self._text())

    def __float__(self) -> float:
        return float(self._text())

    def __hash__(self) -> int:
        return hash(self._text())

    def __eq__(self, o: Any) -> bool:
        return self._text() == o

    def __len__(self) -> int:
        return len(self._text())


class SymToken(Token):
    def __init__(self, i: int, ty: Any, ctx: Optional[Ctx]):
        self.i = i
        self.type = ty
        self.ctx = ctx

    @property
    def value(self) -> Any:  # type: ignore[override]
        return LazyVal(self)

    @value.setter
    def value(self, v: Any) -> None:
        pass

    def resolve(self) -> str:
        t = self.type
        if type(t) is int:
            return token_text(self.i, t)
        c = self.ctx
        assert c is not None
        if isinstance(t, SelInt) and t.vid in c.domains:
            dom = c.domains[t.vid]
            return token_text(self.i, next(iter(dom))) if len(dom) == 1 else "?"
        m = c.ensure_model()
        k = int(frac_of(m.eval(t.z, model_completion=True)))
        r, _ = c.query(t.z != k, timeout=2000)
        if r == "unsat":
            return token_text(self.i, k)
        return "?"  # kind still open on this path: message-only sink, never fork for it


class FakeTokenizer(Tokenizer):
    def __init__(self, toks: List[Token]):
        super().__init__()
        self.toks = toks

    def tokenize(self, buffer: str) -> List[Token]:
        return list(self.toks)


# ------------------------------------------------------------------------------------------------
# reference grammar (DESIGN.md appendix A)
# ------------------------------------------------------------------------------------------------


class Reject(Exception):
    pass


class Unspecified(Exception):
    pass


FIRST_ATOM = (T.Variable, T.Function, T.OpenParen)
_EQ_MEMO: dict = {}


class Ref:
    def __init__(self, toks: List[Token], ctx: Optional[Ctx]):
        self.toks = toks
        self.pos = 0
        self.ctx = ctx

    def is_(self, *kinds: int) -> bool:
        t = self.toks[self.pos].type
        if type(t) is int:
            return t in kinds
        if isinstance(t, SelInt):
            return bool(t.is_in(kinds))
        for k in kinds:
            if self.ctx.branch(t.z == k):  # type: ignore[union-attr]
                return True
        return False

    def take(self) -> Token:
        tok = self.toks[self.pos]
        self.pos += 1
        return tok

    def expect(self, k: int) -> None:
        if not self.is_(k):
            raise Reject()
        self.pos += 1

    def start(self) -> Any:
        e = self.equal()
        if not self.is_(T.EOF):
            raise Reject()
        return e

    def equal(self) -> Any:
        e = self.add()
        while self.is_(T.Equal):
            self.take()
            e = ("eq", e, self.add())
        return e

    def add(self) -> Any:
        e = self.mult()
        while True:
            if self.is_(T.Plus):
                self.take()
                e = ("add", e, self.mult())
            elif self.is_(T.Minus):
                self.take()
                e = ("sub", e, self.mult())
            else:
                return e

    def mult(self) -> Any:
        e = self.exp()
        while True:
            if self.is_(T.Multiply):
                self.take()
                e = ("mul", e, self.exp())
            elif self.is_(T.Divide):
                self.take()
                e = ("div", e, self.exp())
            else:
                return e

    def exp(self) -> Any:
        e = self.unary()
        if self.is_(T.Exponent):
            self.take()
            e = ("pow", e, self.unary())
        return e

    def unary(self) -> Any:
        if self.is_(T.Minus):
            self.take()
            if self.is_(T.Constant):
                tok = self.take()
                if self.is_(T.Factorial):
                    raise Unspecified("-CONST!")
                return self.tail(("const", tok.i, True))
            return ("neg", self.factors())
        if self.is_(T.Constant):
            tok = self.take()
            return self.tail(("const", tok.i, False))
        return self.factors()

    def tail(self, c: Any) -> Any:
        if self.is_(T.Factorial):
            self.take()
            if self.is_(*FIRST_ATOM):
                raise Unspecified("CONST! followed by a factor")
            return ("fact", c)
        if self.is_(*FIRST_ATOM):
            return ("mul", c, self.factors())
        return c

    def factors(self) -> Any:
        atoms = [self.atom()]
        while self.is_(*FIRST_ATOM):
            atoms.append(self.atom())
        if self.is_(T.Exponent):
            self.take()
            atoms[-1] = ("pow", atoms[-1], self.unary())
        e = atoms[0]
        for a in atoms[1:]:
            e = ("mul", e, a)
        return e

    def atom(self) -> Any:
        if self.is_(T.Variable):
            return ("var", self.take().i)
        if self.is_(T.Function):
            self.take()
            self.expect(T.OpenParen)
            e = self.add()
            self.expect(T.CloseParen)
            return ("sgn", e)
        if self.is_(T.OpenParen):
            self.take()
            e = self.add()
            self.expect(T.CloseParen)
            return e
        raise Reject()


def const_value(i: int, negative: bool) -> Fraction:
    v = Fraction(CONST_TEXT[i])
    return -v if negative else v


def ast_z3(a: Any, dom: List[Any]) -> Any:
    k = a[0]
    if k == "const":
        from ..symx import RV

        return RV(const_value(a[1], a[2]))
    if k == "var":
        return var(VAR_TEXT[a[1]])
    if k == "neg":
        return -ast_z3(a[1], dom)
    if k == "sgn":
        c = ast_z3(a[1], dom)
        return z3.If(c < 0, z3.RealVal(-1), z3.If(c > 0, z3.RealVal(1), z3.RealVal(0)))
    if k == "fact":
        import math

        v = const_value(a[1][1], a[1][2])
        n = int(v)
        if n < 0:
            raise Undefined("factorial of a negative literal")
        return z3.RealVal(math.factorial(n))
    l, r = ast_z3(a[1], dom), ast_z3(a[2], dom)
    if k == "add":
        return l + r
    if k == "sub":
        return l - r
    if k == "mul":
        return l * r
    if k == "div":
        dom.append(r != 0)
        return l / r
    if k == "eq":
        dom.append(l == r)
        return l
    if k == "pow":
        ev = frac_of(z3.simplify(r))
        if ev is not None and ev.denominator == 1 and abs(ev) <= MAX_UNFOLD:
            n = int(ev)
            if n >= 0:
                return _ipow(l, n)
            dom.append(l != 0)
            return 1 / _ipow(l, -n)
        dom.append(l > 0)
        return POWR(l, r)
    raise Unsupported(k)


def ast_ceval(a: Any, env: Dict[str, Any]) -> Any:
    import math

    k = a[0]
    if k == "const":
        return const_value(a[1], a[2])
    if k == "var":
        return env.get(VAR_TEXT[a[1]])
    if k == "neg":
        c = ast_ceval(a[1], env)
        return None if c is None else -c
    if k == "sgn":
        c = ast_ceval(a[1], env)
        return None if c is None else Fraction((c > 0) - (c < 0))
    if k == "fact":
        v = int(const_value(a[1][1], a[1][2]))
        return None if v < 0 else Fraction(math.factorial(v))
    l, r = ast_ceval(a[1], env), ast_ceval(a[2], env)
    if l is None or r is None:
        return None
    if k == "add":
        return l + r
    if k == "sub":
        return l - r
    if k == "mul":
        return l * r
    if k == "div":
        return None if r == 0 else l / r
    if k == "eq":
        return l if close(l, r) else None
    if k == "pow":
        if isinstance(r, Fraction) and r.denominator == 1 and isinstance(l, Fraction) and abs(r) < 200:
            n = int(r)
            if n >= 0:
                return l**n
            return None if l == 0 else Fraction(1) / l ** (-n)
        try:
            return None if l <= 0 else float(l) ** float(r)
        except (OverflowError, ValueError):
            return None
    raise Unsupported(k)


def ast_str(a: Any) -> str:
    if a[0] == "const":
        return ("-" if a[2] else "") + CONST_TEXT[a[1]]
    if a[0] == "var":
        return VAR_TEXT[a[1]]
    return "(" + a[0] + " " + " ".join(ast_str(x) for x in a[1:]) + ")"


def tree_ceval(root: Any, env: Dict[str, Any]) -> Any:
    if kind(root) == "eq":
        l, r = tree_ceval(root.left, env), tree_ceval(root.right, env)
        if l is None or r is None or not close(l, r):
            return None
        return l
    return ceval(root, env)


# ------------------------------------------------------------------------------------------------
# one parse, judged
# ------------------------------------------------------------------------------------------------

ALLOWED = (ParserException, ValueError)


def run_real(parser: ExpressionParser, text: str):
    try:
        tree = parser.parse(text)
    except ALLOWED as e:
        return "reject", type(e).__name__
    except RecursionError:
        raise
    except Budget:
        if Ctx.cur is not None:
            Ctx.cur.steps = 0  # spent; what follows (reference model, model extraction) gets a new budget
        return "internal", "no result within the step / wall-clock budget (the parser does not terminate?)"
    except Exception as e:
        return "internal", f"{type(e).__name__}: {str(e)[:80]}"
    return "accept", tree


def run_ref(toks: List[Token], ctx: Optional[Ctx]):
    try:
        return "accept", Ref(toks, ctx).start()
    except Reject:
        return "reject", None
    except Unspecified as e:
        return "unspecified", str(e)


def judge(real: Any, ref: Any, ctx: Optional[Ctx], env: Optional[Dict[str, Any]]):
    """-> (problems [(label, text)], queries asked, queries proved, cex model or None)"""
    problems: List[Tuple[str, str]] = []
    asked = proved = 0
    model = None
    if real[0] == "internal":
        problems.append(("C10:internal-error", f"parse raised {real[1]}"))
        return problems, asked, proved, model
    if real[0] == "accept":
        tree = real[1]
        if not isinstance(tree, MathExpression):
            problems.append(("C10:not-a-tree", f"parse returned {type(tree).__name__}"))
            return problems, asked, proved, model
        for p in audit(tree):
            problems.append(("C10:malformed", f"returned tree '{V.safe_str(tree)}' is malformed: {p}"))
    if ref[0] == "unspecified":
        return problems, asked, proved, model
    if real[0] != ref[0]:
        problems.append(("C03:acceptance", f"parser {real[0]}s ({real[1] if real[0] == 'reject' else V.safe_str(real[1])}) "
                         f"but the documented grammar {ref[0]}s"))
        return problems, asked, proved, model
    if real[0] == "accept" and not any(p[0].startswith("C10:malformed") for p in problems):
        tree, ast = real[1], ref[1]
        if ctx is not None:
            try:
                d1: List[Any] = []
                d2: List[Any] = []
                a = zeval(tree, d1, ctx) if kind(tree) != "eq" else _eq_z3(tree, d1, ctx)
                b = ast_z3(ast, d2)
            except Undefined:
                return problems, asked, proved, model
            asked += 1
            r, m = ctx.query_lazy(d1 + d2 + [a != b], powr_axioms(a, b))
            if r == "unsat":
                # domains must agree as well: the real tree must be defined wherever the reference is
                proved += 1
            elif r == "sat":
                model = m
                problems.append(("C03:value", f"parsed tree '{V.safe_str(tree)}' does not denote {ast_str(ast)}"))
            else:
                problems.append(("inconclusive", "solver unknown on the value comparison"))
        else:
            assert env is not None
            try:
                va, vb = tree_ceval(tree, env), ast_ceval(ast, env)
            except Unsupported:
                va = vb = None
            if va is not None and vb is not None and not close(va, vb):
                problems.append(("C03:value", f"parsed tree '{V.safe_str(tree)}' evaluates to {float(va)} at {_envs(env)}, the "
                                 f"documented reading {ast_str(ast)} to {float(vb)}"))
    return problems, asked, proved, model


def _envs(env: Dict[str, Any]) -> str:
    return "{" + ", ".join(f"{k}={v}" for k, v in sorted(env.items())) + "}"


def _eq_z3(tree: Any, dom: List[Any], ctx: Optional[Ctx]) -> Any:
    l = _eq_z3(tree.left, dom, ctx) if kind(tree.left) == "eq" else zeval(tree.left, dom, ctx)
    r = _eq_z3(tree.right, dom, ctx) if kind(tree.right) == "eq" else zeval(tree.right, dom, ctx)
    dom.append(l == r)
    return l


def concrete_tokens(kinds: List[int]) -> List[Token]:
    return [SymToken(i, k, None) for i, k in enumerate(kinds)] + [Token("", T.EOF)]


def render(kinds: List[int]) -> str:
    return " ".join(token_text(i, k) for i, k in enumerate(kinds))


ENVS = [
    {v: Fraction(p) for v, p in zip(VAR_TEXT, (2, 3, 5, 7, 11, 13, 17, 19, 23, 29))},
    {v: Fraction(p, q) for v, p, q in zip(VAR_TEXT, (-3, 7, -2, 1, 9, -4, 5, 8, -7, 6), (2, 3, 1, 5, 4, 3, 2, 7, 3, 5))},
]


def concrete_check(kinds: List[int], env: Optional[Dict[str, Any]] = None) -> List[Tuple[str, str]]:
    """The same judgement on the real tokenizer+parser fed with the rendered text (no proxies, no stubs)."""
    text = render(kinds)
    _arm(10.0)  # a parse of a handful of tokens that takes longer than this does not terminate
    try:
        real = run_real(ExpressionParser(), text)
    finally:
        _arm(0)
    ref = run_ref(concrete_tokens(kinds), None)
    out: List[Tuple[str, str]] = []
    for e in ([env] if env else []) + ENVS:
        probs, _, _, _ = judge(real, ref, None, e)
        for p in probs:
            if p not in out:
                out.append(p)
        if out:
            break
    return [(lab, f"parse({text!r}): {msg}") for lab, msg in out]


# ------------------------------------------------------------------------------------------------
# exploration
# ------------------------------------------------------------------------------------------------


def worker(item: Tuple[int, Tuple[int, ...]]) -> Dict[str, Any]:
    N, pre = item
    st = Stats()
    part: Dict[str, Any] = {"stats": st, "cases": 1, "nontrivial": 0, "proved": 0, "queries": 0, "inconclusive": 0,
                            "violations": [], "samples": [], "reach": {}, "inconclusive_samples": [],
                            "engine_mismatch": 0, "mismatch_samples": [], "validated": 0}

    def h(ctx: Ctx) -> Any:
        toks: List[Token] = []
        kz = []
        for i in range(N):
            z = z3.Int(f"k{i}")
            ctx.declare_selector(z, [pre[i]] if i < len(pre) else KINDS)
            kz.append(z)
            toks.append(SymToken(i, SelInt(z), ctx))
        toks.append(Token("", T.EOF))
        parser = ExpressionParser()
        parser.tokenizer = FakeTokenizer(toks)
        with shims.installed():
            real = run_real(parser, "<symbolic tokens>")
            ref = run_ref(toks, ctx)
            problems, asked, proved, model = judge(real, ref, ctx, None)
        m = model if model is not None else ctx.ensure_model()
        kinds = [int(frac_of(m.eval(z, model_completion=True))) for z in kz]
        env = None
        if model is not None:
            env = {}
            for v in VAR_TEXT:
                fv = frac_of(model.eval(var(v), model_completion=True))
                env[v] = fv if fv is not None else Fraction(1)
        return problems, asked, proved, kinds, env, real[0], ref[0]

    rng = random.Random(seed() * 31 + N * 7 + sum(pre))
    for r in explore(h, st, max_paths=2000000):
        if r.status != "ok":
            part["inconclusive"] += 1
            if len(part["inconclusive_samples"]) < 3:
                part["inconclusive_samples"].append(f"N={N} prefix {[KNAME[k] for k in pre]}: {r.status} {r.detail}")
            continue
        problems, asked, proved, kinds, env, rv, fv = r.value
        part["nontrivial"] += 1
        part["queries"] += 1 + asked
        key = f"{rv}/{fv}"
        part["reach"][key] = part["reach"].get(key, 0) + 1
        real_probs = [p for p in problems if p[0] != "inconclusive"]
        if any(p[0] == "inconclusive" for p in problems):
            part["inconclusive"] += 1
        if not real_probs:
            part["proved"] += 1 + proved
            if rng.random() < 0.02:
                # validated trace: this path's class member through the real tokenizer + parser
                if concrete_check(kinds):
                    part["engine_mismatch"] += 1
                    part["mismatch_samples"].append(f"engine passed but {render(kinds)!r} fails concretely")
                else:
                    part["validated"] += 1
                    if len(part["samples"]) < 1:
                        part["samples"].append({"tokens": [KNAME[k] for k in kinds], "text": render(kinds), "real": rv, "reference": fv})
            continue
        again = concrete_check(kinds, env)
        labels = {p[0] for p in real_probs}
        hit = [p for p in again if p[0] in labels]
        if hit:
            for lab, msg in hit[:1]:
                prop, fault = lab.split(":")
                part["violations"].append(Violation(prop, fault, {"fault": fault, "tokens": " ".join(KNAME[k] for k in kinds)},
                                                    msg, {"kind": "tokens", "kinds": kinds, "text": render(kinds),
                                                          "observed": [m_ for _, m_ in again]}))
        else:
            part["engine_mismatch"] += 1
            part["mismatch_samples"].append(f"{render(kinds)!r}: {real_probs[0]}")
    return part


def replay_record(rec: Dict[str, Any]) -> Tuple[bool, str]:
    if rec.get("kind") == "literal":
        probs = literal_check(rec["template"], rec["literal"])
        return bool(probs), "; ".join(m for _, m in probs)
    probs = concrete_check(rec["kinds"])
    return bool(probs), "; ".join(m for _, m in probs)


def explore_tokens(prop: str, rep: Report, Nmax: int, budget: float) -> None:
    items: List[Tuple[int, Tuple[int, ...]]] = [(0, ())]
    for N in range(1, Nmax + 1):
        split = min(N, 2 if N < 7 else 3)
        for pre in itertools.product(KINDS, repeat=split):
            items.append((N, pre))
    random.Random(seed()).shuffle(items)
    items.sort(key=lambda it: -it[0])
    for status, item, res in pmap(worker, items, budget_s=budget, chunk=2):
        if status == "ok":
            # keep only this property's violations (the exploration is shared between C03 and C10)
            res["violations"] = [v for v in res["violations"] if v.prop == prop]
            rep.absorb(res)
        elif status == "skipped":
            rep.skipped += 1
        elif status == "crashed":
            rep.inconclusive += 1
        else:
            rep.harness_errors.append(f"{item!r}: {res}")


# ------------------------------------------------------------------------------------------------
# literal spellings (text needs digits: concrete pool, selector explored by the engine)
# ------------------------------------------------------------------------------------------------

LITERALS = ["2", "007", "0", "12", "1.5", ".5", "5.", "0.25", "00.50", "9007199254740993", "123456789012345678901234567890",
            "18446744073709551616", "1000000000000000000000.5", "0.1", ".", "1.2.3", "1..2", ".."]
TEMPLATES = ["{c}", "-{c}", "{c}!", "{c}x", "x^{c}", "x + {c}", "({c})", "{c} / 4"]


def literal_expect(text: str) -> Any:
    digits = sum(ch.isdigit() for ch in text)
    dots = text.count(".")
    if digits == 0 or dots > 1:
        return ValueError
    return float(text) if dots else int(text)


def literal_check(ti: int, li: int) -> List[Tuple[str, str]]:
    lit = LITERALS[li]
    text = TEMPLATES[ti].format(c=lit)
    want = literal_expect(lit)
    try:
        tree = ExpressionParser().parse(text)
    except ValueError:
        if want is ValueError:
            return []
        return [("C03:literal", f"parse({text!r}) raised ValueError for the well-formed literal {lit}")]
    except ParserException as e:
        if want is ValueError:
            return [("C03:literal", f"parse({text!r}): the malformed literal {lit!r} must be reported as ValueError, got {type(e).__name__}")]
        return [("C03:literal", f"parse({text!r}) raised {type(e).__name__}")]
    except Exception as e:
        return [("C10:internal-error", f"parse({text!r}) raised {type(e).__name__}")]
    if want is ValueError:
        return [("C03:literal", f"parse({text!r}) accepted the malformed literal {lit!r}")]
    if TEMPLATES[ti].startswith("-{c}"):
        want = -want
    consts = [n for n in preorder(tree) if kind(n) == "const" and not (TEMPLATES[ti].endswith("/ 4") and n.value == 4 and n.parent is not None
                                                                     and n.parent.right is n)]
    if len(consts) != 1:
        return [("C03:literal", f"parse({text!r}) produced {len(consts)} constants")]
    got = consts[0].value
    if type(got) is not type(want) or got != want:
        return [("C03:literal", f"parse({text!r}): the literal {lit} was read as {got!r} ({type(got).__name__}), it denotes {want!r}")]
    return []


def literal_worker(_: Any) -> Dict[str, Any]:
    st = Stats()
    part: Dict[str, Any] = {"stats": st, "cases": 1, "nontrivial": 0, "proved": 0, "queries": 0, "inconclusive": 0,
                            "violations": [], "samples": [], "reach": {}, "inconclusive_samples": [],
                            "engine_mismatch": 0, "mismatch_samples": [], "validated": 0}

    def h(ctx: Ctx) -> Any:
        ti, li = ctx.choose(len(TEMPLATES), "tpl"), ctx.choose(len(LITERALS), "lit")
        return literal_check(ti, li), ti, li

    for r in explore(h, st):
        if r.status != "ok":
            part["inconclusive"] += 1
            continue
        problems, ti, li = r.value
        part["nontrivial"] += 1
        part["queries"] += 1
        if not problems:
            part["proved"] += 1
            continue
        for lab, msg in literal_check(ti, li)[:1]:
            prop, fault = lab.split(":")
            part["violations"].append(Violation(prop, fault, {"fault": fault, "literal": LITERALS[li]}, msg,
                                                {"kind": "literal", "template": ti, "literal": li, "observed": msg}))
    part["reach"]["literals"] = 1
    part["samples"].append({"literals": LITERALS, "templates": TEMPLATES})
    return part


FUNCTIONS = ["ExpressionParser.parse/_parse/tokenize", "parse_equal/parse_add/parse_mult/parse_exponent/parse_unary/"
             "parse_factors/parse_function", "next/eat/check", "TokenSet.contains", "coerce_to_number (literal pool)"]


def run(prop: str, tier: str) -> int:
    rep = Report(prop, tier)
    Nmax = 6 if tier == "quick" else 7
    rep.bounds = {"tokens": f"every sequence of <= {Nmax} token kinds out of {len(KINDS)} (plus the end marker)",
                  "texts": "per-position distinct literals (2 3 2.5 7 11 ...) and variables (x y z w ...), function sgn",
                  "assignment": "unbounded reals (solver variables) for the value comparison"}
    rep.functions = FUNCTIONS
    rep.stubs = ["Tokenizer subclass returning the symbolic token list (assigned to the public parser.tokenizer attribute)",
                 "token.value resolves to its text only when the kind is already determined on the path (messages never fork)"]
    rep.assumptions = ["the reference grammar of DESIGN.md appendix A is the documented grammar; CONST! followed by a factor "
                       "and -CONST! are unspecified and excluded", "which ParserException subclass is raised is never compared",
                       "longer inputs are outside the claim; the token-level claim is tied to strings by rendering every "
                       "counterexample / validated path to text and by C11"]
    if prop == "C03":
        rep.explanation = (
            "Bounded symbolic execution of the real parser on N solver-variable token kinds. On each feasible path a reference "
            "recogniser/evaluator for the documented grammar runs on the same symbols; the path passes when both accept or "
            "both reject and, on accept, z3 proves 'real tree = reference reading' for every assignment of the variables "
            "(powers with non-literal exponents as an uninterpreted function with integer-instance axioms).")
    else:
        rep.explanation = (
            "Same exploration as C03, judged for the error contract: every path ends in a tree that passes the structure audit "
            "(links, arity, no node object twice) or in ParserException/ValueError; any other exception is a violation. "
            "Termination: every path is finite (a step budget turns a runaway path into an inconclusive one).")
    explore_tokens(prop, rep, Nmax, 400 if tier == "quick" else 720)
    lit = literal_worker(None)
    lit["violations"] = [v for v in lit["violations"] if v.prop == prop]
    rep.absorb(lit)
    rep.bounds["literals"] = f"{len(TEMPLATES)} templates x {len(LITERALS)} literal spellings (int / float / beyond 2^53 / malformed)"
    from . import parser_state

    # characters through the public parse(text): C10 judges the error contract, C03 the accept/reject verdict
    parser_state.extend(rep, tier, prop)
    return rep.finish(required_reach=["accept/accept", "reject/reject"])
