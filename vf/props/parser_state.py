"""C10 extras: character-level totality through the public parse(text), and sticky state
(two-call histories and a havoc step on one parser object)."""
from __future__ import annotations

import itertools
import random
from fractions import Fraction
from typing import Any, Dict, List, Optional, Tuple

import z3

import mathy_core.tokenizer as TK
from mathy_core.expressions import MathExpression
from mathy_core.parser import ExpressionParser, ParserException
from mathy_core.tokenizer import TOKEN_TYPES, Token, Tokenizer

from ..core import Report, Violation, out_of_time, pmap, seed
from ..symstr import SymKeyDict, SymStr, fresh_string
from ..symx import Budget, Ctx, SelInt, Stats, SymInt, SymNum, Unsupported, explore, frac_of
from ..trees import audit, sig
from . import parser as PP
from . import tokenizer as TZ
from . import value as V

T = TOKEN_TYPES
ALLOWED = (ParserException, ValueError)


# ------------------------------------------------------------------------------------------------
# float()/int() of a symbolic digit string (names shadowed inside mathy_core.tokenizer only)
# ------------------------------------------------------------------------------------------------


def _horner(chars: Tuple[Any, ...], allow_dot: bool) -> SymNum:
    """Python's int()/float() on a string of symbolic characters, for the ASCII subset of their grammar:
    optional surrounding whitespace, optional sign, digits, for float one optional '.' and an optional exponent
    e[+-]digits; ValueError otherwise.  Underscores, 'inf'/'nan' words and non-ASCII characters are not modelled
    (Unsupported: such a path is inconclusive, never a verdict)."""
    from ..symstr import SymStr as _S

    c = Ctx.cur
    assert c is not None
    cs = list(chars)
    for ch in cs:
        if c.branch(z3.Or(ch >= 128, ch == 95)):
            raise Unsupported("int()/float() of a string with '_' or non-ASCII characters")
    while cs and c.branch(_S.is_space(cs[0])):
        cs.pop(0)
    while cs and c.branch(_S.is_space(cs[-1])):
        cs.pop()
    negative = False
    if cs and c.branch(z3.Or(cs[0] == 43, cs[0] == 45)):
        negative = c.branch(cs[0] == 45)
        cs.pop(0)
    digits = 0
    dot_seen = False
    val: Any = z3.RealVal(0)
    scale = Fraction(1)
    i = 0
    exponent: Optional[int] = None
    while i < len(cs):
        ch = cs[i]
        if c.branch(z3.And(ch >= 48, ch <= 57)):
            digits += 1
            d = z3.ToReal(ch - 48)
            if not dot_seen:
                val = val * 10 + d
            else:
                scale = scale / 10
                val = val + d * z3.RealVal(str(scale))
            i += 1
            continue
        if allow_dot and not dot_seen and c.branch(ch == 46):
            dot_seen = True
            i += 1
            continue
        if allow_dot and digits > 0 and c.branch(z3.Or(ch == 101, ch == 69)):
            # exponent: [sign] digits to the end
            j = i + 1
            esign = 1
            if j < len(cs) and c.branch(z3.Or(cs[j] == 43, cs[j] == 45)):
                esign = -1 if c.branch(cs[j] == 45) else 1
                j += 1
            if j >= len(cs):
                raise ValueError("could not convert string to float")
            e = 0
            for k in range(j, len(cs)):
                if not c.branch(z3.And(cs[k] >= 48, cs[k] <= 57)):
                    if c.branch(z3.Or(z3.And(cs[k] >= 65, cs[k] <= 90), z3.And(cs[k] >= 97, cs[k] <= 122))):
                        raise ValueError("could not convert string to float")
                    raise ValueError("could not convert string to float")
                e = e * 10 + int(c.realize(z3.ToReal(cs[k] - 48)))
            exponent = esign * e
            break
        if c.branch(z3.Or(z3.And(ch >= 65, ch <= 90), z3.And(ch >= 97, ch <= 122))) and allow_dot and digits == 0 and not dot_seen:
            raise Unsupported("float() of a word (inf / nan spellings are not modelled)")
        raise ValueError("invalid literal")
    if digits == 0:
        raise ValueError("could not convert string to float")
    if exponent is not None:
        val = val * z3.RealVal(str(Fraction(10) ** exponent))
    if negative:
        val = -val
    return SymNum(val, not allow_dot)


class _FloatOfStr(type):
    def __instancecheck__(cls, o: Any) -> bool:
        return isinstance(o, float)

    def __call__(cls, x: Any = 0.0) -> Any:  # type: ignore[override]
        if isinstance(x, SymStr):
            return _horner(x.chars, True)
        return float(x)


class FloatOfStr(metaclass=_FloatOfStr):
    pass


class _IntOfStr(type):
    def __instancecheck__(cls, o: Any) -> bool:
        return isinstance(o, int)

    def __call__(cls, x: Any = 0, *a: Any) -> Any:  # type: ignore[override]
        if isinstance(x, SymStr):
            return _horner(x.chars, False)
        return int(x, *a)


class IntOfStr(metaclass=_IntOfStr):
    pass


class string_shims:
    def __enter__(self) -> None:
        self.had = {n: (n in vars(TK), vars(TK).get(n)) for n in ("float", "int")}
        TK.float = FloatOfStr  # type: ignore[attr-defined]
        TK.int = IntOfStr  # type: ignore[attr-defined]

    def __exit__(self, *a: Any) -> None:
        for n, (had, old) in self.had.items():
            if had:
                setattr(TK, n, old)
            else:
                delattr(TK, n)


# ------------------------------------------------------------------------------------------------
# (a) characters
# ------------------------------------------------------------------------------------------------


def judge_contract(call: Any) -> Tuple[str, List[Tuple[str, str]]]:
    from ..symx import Ctx as _C, _arm

    concrete = _C.cur is None
    try:
        if concrete:
            _arm(10.0)  # outside an exploration (replay): a parse of a few characters that takes longer does not terminate
        try:
            tree = call()
        finally:
            if concrete:
                _arm(0)
    except ALLOWED as e:
        return "reject", []
    except RecursionError:
        raise
    except Budget:
        if _C.cur is not None:
            _C.cur.steps = 0  # the budget is spent: the reference model and the model extraction that follow get a new one
        return "internal", [("internal-error", "no result within the step / wall-clock budget (does not terminate?)")]
    except Exception as e:
        return "internal", [("internal-error", f"raised {type(e).__name__}: {str(e)[:80]}")]
    if not isinstance(tree, MathExpression):
        return "accept", [("not-a-tree", f"returned {type(tree).__name__}")]
    return "accept", [("malformed", p) for p in audit(tree)]


class _RefTok:
    def __init__(self, i: int, ty: int):
        self.i = i
        self.type = ty


def ref_accepts(chars: List[Any], ctx: Optional[Ctx]) -> str:
    """Documented verdict for a string: 'accept' | 'reject' | 'unspecified' (reference tokenizer of C11 + reference
    grammar of C03; literals must have >= 1 digit and <= 1 dot)."""
    status, toks = TZ.ref_tokenize(chars, False, ctx, TZ.function_names())
    if status == "error":
        return "reject"
    for ty, cs in toks:
        if ty == T.Constant:
            dots = sum(1 for c in cs if TZ.decide(ctx, c == 46))
            if dots > 1 or dots == len(cs):
                return "reject"
    reftoks = [_RefTok(i % 10, ty) for i, (ty, cs) in enumerate(toks)]
    verdict = PP.run_ref(reftoks, ctx)
    return verdict[0]


def concrete_acceptance(text: str) -> List[Tuple[str, str]]:
    want = ref_accepts([ord(ch) for ch in text], None)
    st, probs = judge_contract(lambda: ExpressionParser().parse(text))
    if want != "unspecified" and st in ("accept", "reject") and st != want:
        return [("acceptance", f"the parser {st}s {text!r} but the documented grammar {want}s it")]
    return []


def chars_worker(item: Any) -> Dict[str, Any]:
    L, pre = item[0], item[1]
    alts: Dict[int, List[int]] = item[2] if len(item) > 2 else {}
    st = Stats()
    classes = TZ.char_classes()
    part = _part(st)

    def h(ctx: Ctx) -> Any:
        s = fresh_string(L)
        for i, k in enumerate(pre):
            ctx.add(classes[k](s.chars[i]))
        for i, codes in alts.items():
            ctx.add(z3.Or([s.chars[i] == c for c in codes]))
        parser = ExpressionParser()
        parser.tokenizer.functions = SymKeyDict(parser.tokenizer.functions)
        with string_shims():
            status, problems = judge_contract(lambda: parser.parse(s))
        want = ref_accepts(list(s.chars), ctx)
        if want != "unspecified" and status in ("accept", "reject") and status != want:
            problems = problems + [("acceptance", f"the parser {status}s but the documented grammar {want}s")]
        text = s.concrete(ctx.ensure_model()) if problems or ctx.stats.paths % 211 == 0 else None
        return status, problems, text

    for r in explore(h, st, max_paths=500000):
        if r.status != "ok":
            part["inconclusive"] += 1
            if len(part["inconclusive_samples"]) < 3:
                part["inconclusive_samples"].append(f"chars L={L} {pre}: {r.status} {r.detail}")
            continue
        status, problems, text = r.value
        part["nontrivial"] += 1
        part["queries"] += 1
        part["reach"]["chars:" + status] = part["reach"].get("chars:" + status, 0) + 1
        if not problems:
            part["proved"] += 1
            if text is not None:
                st2, p2 = judge_contract(lambda: ExpressionParser().parse(text))
                p2 = p2 + concrete_acceptance(text)
                if p2 or st2 != status:
                    part["engine_mismatch"] += 1
                    part["mismatch_samples"].append(f"engine: {status} without problems, concrete parse({text!r}): {st2} {p2}")
                else:
                    part["validated"] += 1
            continue
        st2, p2 = judge_contract(lambda: ExpressionParser().parse(text))
        p2 = p2 + concrete_acceptance(text)
        hit = [p for p in p2 if p[0] in {q[0] for q in problems}]
        if hit:
            owner = "C03" if hit[0][0] == "acceptance" else "C10"
            part["violations"].append(Violation(owner, hit[0][0], {"fault": hit[0][0], "level": "characters"},
                                                f"parse({text!r}) {hit[0][1]}",
                                                {"kind": "text", "text": text, "codepoints": [ord(c) for c in text],
                                                 "observed": hit[0][1]}))
        else:
            part["engine_mismatch"] += 1
            part["mismatch_samples"].append(f"{text!r}: {problems[0]}")
    return part


def _part(st: Stats) -> Dict[str, Any]:
    return {"stats": st, "cases": 1, "nontrivial": 0, "proved": 0, "queries": 0, "inconclusive": 0, "violations": [],
            "samples": [], "reach": {}, "inconclusive_samples": [], "engine_mismatch": 0, "mismatch_samples": [],
            "validated": 0}


# ------------------------------------------------------------------------------------------------
# (b)/(c) sticky state on token level
# ------------------------------------------------------------------------------------------------


class KeyedTokenizer(Tokenizer):
    """Returns the token list registered for the given text (public attribute parser.tokenizer)."""

    def __init__(self, table: Dict[str, List[Token]]):
        super().__init__()
        self.table = table

    def tokenize(self, buffer: str) -> List[Token]:
        return list(self.table[buffer])


def sym_tokens(ctx: Ctx, n: int, tag: str, kinds: List[int] = PP.KINDS, offset: int = 0) -> Tuple[List[Token], List[Any]]:
    toks: List[Token] = []
    kz = []
    for i in range(n):
        z = z3.Int(f"{tag}{i}")
        ctx.declare_selector(z, kinds)
        kz.append(z)
        toks.append(PP.SymToken(offset + i, SelInt(z), ctx))
    toks.append(Token("", T.EOF))
    return toks, kz


def outcome(parser: ExpressionParser, text: str) -> Tuple[str, str]:
    try:
        tree = parser.parse(text)
    except ALLOWED as e:
        return "reject", "ParserException" if isinstance(e, ParserException) else "ValueError"
    except RecursionError:
        raise
    except Exception as e:
        return "internal", f"{type(e).__name__}: {str(e)[:60]}"
    return "accept", sig(tree)


def instance_attrs() -> List[str]:
    """Names of the per-parse attributes a parser object carries (discovered, not hard-coded)."""
    p = ExpressionParser()
    names = set(vars(p))
    for text in ("1 + x", "1 +", ")", ""):
        try:
            p.parse(text)
        except Exception:
            pass
        names |= set(vars(p))
    return sorted(n for n in names if n not in ("tokenizer", "_parse_cache", "_tokens_cache"))


ALL_KINDS = PP.KINDS + [T.EOF, T.Invalid, T.Pad]


def havoc(parser: ExpressionParser, ctx: Optional[Ctx], choice: Dict[str, Any]) -> None:
    """Overwrite every per-parse attribute with an arbitrary value of its type."""
    for name in instance_attrs():
        cur = getattr(parser, name, None)
        c = choice[name]
        if isinstance(cur, Token) or name == "current_token":
            setattr(parser, name, c)
        else:
            setattr(parser, name, c)


def state_worker(item: Tuple[str, int, Tuple[int, ...]]) -> Dict[str, Any]:
    mode, N, pre = item
    st = Stats()
    part = _part(st)
    attrs = instance_attrs()

    def build_choice(ctx: Ctx) -> Dict[str, Any]:
        choice: Dict[str, Any] = {}
        nlist = ctx.choose(3, "hv_len")
        choice["__n"] = nlist
        for name in attrs:
            if name == "current_token":
                z = z3.Int("hv_kind")
                ctx.declare_selector(z, ALL_KINDS)
                choice[name] = PP.SymToken(9, SelInt(z), ctx)
            else:
                n = nlist  # None / empty list / list of stale tokens (one selector for all list attributes)
                if n == 0:
                    choice[name] = None
                elif n == 1:
                    choice[name] = []
                else:
                    toks, _ = sym_tokens(ctx, 2, f"hv_{name}_", offset=7)
                    choice[name] = toks
        return choice

    def h(ctx: Ctx) -> Any:
        toks, kz = sym_tokens(ctx, N, "k")
        for i, k in enumerate(pre):
            ctx.add(kz[i] == k)
            ctx.domains[kz[i].get_id()] = frozenset((k,))
        table = {"query": toks}
        desc = ""
        used = ExpressionParser()
        used.tokenizer = KeyedTokenizer(table)
        if mode == "history":
            first, fz = sym_tokens(ctx, 2, "f", offset=5)
            table["first"] = first
            o1 = outcome(used, "first")
            desc = f"after parse of a 2-token input that {o1[0]}s"
        elif mode == "repeat":
            fz = []
            o1 = outcome(used, "query")
            desc = f"after a first parse of the same input that {o1[0]}s"
        else:
            try:
                used.parse("query")  # materialise the attributes, outcome irrelevant
            except Exception:
                pass
            used.clear_cache()
            choice = build_choice(ctx)
            nlist = choice.pop("__n")
            havoc(used, ctx, choice)
            desc = "after havoc of " + ",".join(attrs)
        got = outcome(used, "query")
        fresh = ExpressionParser()
        fresh.tokenizer = KeyedTokenizer(table)
        want = outcome(fresh, "query")
        problems = []
        if got != want:
            problems.append(("sticky-state", f"{desc}: used parser gives {got}, fresh parser gives {want}"))
        m = ctx.ensure_model()
        kinds = [int(frac_of(m.eval(z, model_completion=True))) for z in kz]
        extra = None
        if mode in ("history", "repeat"):
            extra = [int(frac_of(m.eval(z, model_completion=True))) for z in fz]
        else:
            extra = [int(frac_of(m.eval(z3.Int("hv_kind"), model_completion=True))), nlist]
        return problems, kinds, extra, got[0]

    for r in explore(h, st, max_paths=500000):
        if r.status != "ok":
            part["inconclusive"] += 1
            if len(part["inconclusive_samples"]) < 3:
                part["inconclusive_samples"].append(f"{mode} N={N} {pre}: {r.status} {r.detail}")
            continue
        problems, kinds, extra, status = r.value
        part["nontrivial"] += 1
        part["queries"] += 1
        part["reach"][mode] = part["reach"].get(mode, 0) + 1
        if not problems:
            part["proved"] += 1
            continue
        again = concrete_state(mode, kinds, extra)
        if again:
            part["violations"].append(Violation("C10", "sticky-state", {"fault": "sticky-state", "mode": mode}, again,
                                                {"kind": "state", "mode": mode, "kinds": kinds, "extra": extra,
                                                 "observed": again}))
        else:
            part["engine_mismatch"] += 1
            part["mismatch_samples"].append(f"{mode} {PP.render(kinds)!r} extra={extra}: {problems[0][1]}")
    return part


def concrete_state(mode: str, kinds: List[int], extra: Any) -> str:
    """Replay with the real tokenizer and real text."""
    text = PP.render(kinds)
    used = ExpressionParser()
    if mode == "history":
        first = " ".join(PP.token_text(5 + i, k) for i, k in enumerate(extra))
        o1 = outcome(used, first)
        desc = f"after parse({first!r}) ({o1[0]})"
    elif mode == "repeat":
        o1 = outcome(used, text)
        desc = f"after a first parse({text!r}) ({o1[0]})"
    else:
        try:
            used.parse(text)
        except Exception:
            pass
        used.clear_cache()
        hk, nlist = extra
        for name in instance_attrs():
            if name == "current_token":
                setattr(used, name, Token(PP.token_text(9, hk) if hk in PP.KINDS else "", hk))
            else:
                setattr(used, name, None if nlist == 0 else ([] if nlist == 1 else
                                                             [Token("x", T.Variable), Token("y", T.Variable), Token("", T.EOF)]))
        desc = f"with stale per-parse attributes (current_token kind {PP.KNAME.get(hk, hk)}, lists variant {nlist})"
    got = outcome(used, text)
    want = outcome(ExpressionParser(), text)
    if got != want:
        return f"{desc}: parse({text!r}) on the used parser gives {got}, on a fresh parser {want}"
    return ""


def replay_record(rec: Dict[str, Any]) -> Tuple[bool, str]:
    if rec["kind"] == "text":
        text = "".join(chr(c) for c in rec["codepoints"])
        st, p = judge_contract(lambda: ExpressionParser().parse(text))
        p = p + concrete_acceptance(text)
        return bool(p), f"parse({text!r}): {p}"
    msg = concrete_state(rec["mode"], rec["kinds"], rec["extra"])
    return bool(msg), msg


def extend(rep: Report, tier: str, prop: str = "C10") -> None:
    Lmax = 3 if tier == "quick" else 4
    ncls = len(TZ.char_classes())
    items: List[Any] = []
    for L in range(0, Lmax + 1):
        split = min(L, 2)
        for pre in itertools.product(range(ncls), repeat=split):
            items.append(("chars", (L, pre)))
    # near-miss spellings of registered function names: every upper/lower-case variant, called with one free character
    for name in TZ.function_names():
        n = len(name)
        case = {i: sorted({ord(ch.lower()), ord(ch.upper())}) for i, ch in enumerate(name)}
        call = dict(case)
        call.update({n: [ord("(")], n + 2: [ord(")")]})
        items.append(("chars", (n + 3, (), call)))
        items.append(("chars", (n + 1, (), dict(case))))
    rep.bounds["function_name_variants"] = "every upper/lower-case spelling of each registered function name, as name(c) and name+c"
    Nq = (3 if tier == "quick" else 4) if prop == "C10" else 0
    for N in range(1, Nq + 1):
        for pre in itertools.product(PP.KINDS, repeat=min(N, 1)):
            items.append(("state", ("havoc", N, pre)))
            items.append(("state", ("history", N, pre)))
            items.append(("state", ("repeat", N, pre)))
    if prop == "C10":
        from . import history as HI

        P = HI.OPS.index("parse")
        nh = 0
        for H in (1, 2, 3):
            for t in range(len(HI.TEXTS)):
                for q in range(len(HI.TEXTS)):
                    if H < 3 or t in (q, q ^ 1, 2):
                        items.append(("hist", (H, (P, t), (0, q), H == 3, "C10")))
                        nh += 1
        rep.bounds["parse_histories"] = (f"{nh} families: every sequence of <= 2 parse calls (3 when restricted to the queried text, "
                                         f"its boundary twin and a failing text) over the texts {HI.TEXTS} on one parser, then a "
                                         "parse asked twice; outcome must equal a fresh parser's")
    rep.bounds["characters"] = f"every string of <= {Lmax} arbitrary code points through the public parse(text)"
    rep.bounds["sticky_state"] = (f"query of <= {Nq} token kinds after (a) a parse of any 2-token input or of the same input on the same parser, "
                                  f"(b) havoc: every per-parse attribute {instance_attrs()} overwritten with arbitrary values "
                                  "(current_token of any kind incl. EOF/Invalid, stale token lists, None)")
    rep.stubs.append("float()/int() of a symbolic string inside mathy_core.tokenizer: Python's grammar for the ASCII subset "
                     "(whitespace, sign, digits, one dot, exponent), exact value by Horner's rule, ValueError otherwise; "
                     "'_', inf/nan words and non-ASCII characters are not modelled (such paths are inconclusive)")
    rep.functions += ["Tokenizer.tokenize (characters)", "coerce_to_number", "ExpressionParser.clear_cache"]
    rep.explanation += (
        " Character level: the public parse(text) on strings of solver-variable code points (tokenizer and parser together); "
        "sticky state: a query parse on a parser that just parsed an arbitrary 2-token input, and one inductive havoc step "
        "(arbitrary per-parse attributes) - the outcome (accept + tree signature / reject class) must equal a fresh parser's.")
    random.Random(seed()).shuffle(items)

    def dispatch(it: Any) -> Dict[str, Any]:
        if it[0] == "hist":
            from . import history as HI

            return HI.worker(it[1])
        return chars_worker(it[1]) if it[0] == "chars" else state_worker(it[1])

    for status, item, res in pmap(dispatch, items, budget_s=300 if tier == "quick" else 720, chunk=4):
        if status == "ok":
            res["violations"] = [v for v in res["violations"] if v.prop == prop]
            rep.absorb(res)
        elif status == "skipped":
            rep.skipped += 1
        elif status == "crashed":
            rep.inconclusive += 1
        else:
            rep.harness_errors.append(f"{item!r}: {res}")
