"""C09: any sequence of rewrites keeps the expression equivalent to the original.

Bounded unrolling: from each start expression, k steps; every step is a solver-enumerated choice of
(rule-option, applicable node) found by the rules' own find_nodes scan on long-lived rule instances and
applied to node.clone_from_root(), as search agents do.  After every step: structure audit, print /
re-parse round trip, z3 equivalence with the START for every assignment, and every earlier state
unchanged.  A second mode interleaves in-place rewrites with applicability queries on the same rule
instances (stale state between an earlier and a later state of one tree).
"""
from __future__ import annotations

import random
from fractions import Fraction
from typing import Any, Dict, List, Optional, Tuple

import z3

from mathy_core.parser import ExpressionParser

from .. import shims
from ..core import Report, Violation, collect, out_of_time, pmap, seed
from ..rulekit import RULES, family_B, literal_values, skel_json, skel_unjson, test_json_inputs, to_skel
from ..symx import Ctx, Stats, Unsupported, explore, frac_of
from ..trees import ConcreteProvider, audit, build, enum_upto, kind, preorder, root_of, sig, sk_size, sk_str, slot_roles, variables_of
from ..zeval import Undefined, ceval, close, powr_axioms, uses_uf, var, zeval_top
from . import value as V
from .printer import ENVS, model_env

Problem = Tuple[str, str]
EQ_CACHE: Dict[Tuple[str, str], Any] = {}
UF_FALLBACKS = [0]


def state_key(root: Any) -> str:
    return sig(root)


def snapshot(root: Any) -> Tuple[str, str, Tuple[str, ...]]:
    return sig(root), V.safe_str(root), tuple(str(p) for p in audit(root))


# fault kinds of a sequence that fall under another property's statement (that property's check runs the same two-step
# sequences on long-lived rule instances and reports these kinds under its own id)
OWNERS = {"C01": {"not-equivalent"}, "C02": {"not-equivalent"}, "C06": {"stale-answer", "step-raised"},
          "C07": {"malformed", "variables", "earlier-state-altered"}}


def equivalent(a: Any, b: Any, ctx: Optional[Ctx], env: Optional[Dict[str, Any]]) -> Tuple[str, Any]:
    """-> ('same'|'differ'|'unknown'|'undefined', model)"""
    if (kind(a) == "eq") != (kind(b) == "eq"):
        return "differ", None
    if ctx is not None:
        try:
            ta, tb = zeval_top(a, ctx), zeval_top(b, ctx)
        except Undefined:
            return "undefined", None
        if ta[1].eq(tb[1]) and (ta[0] != "eq" or ta[2].eq(tb[2])):
            return "same", None
        if ta[0] == "eq":
            dom = ta[3] + tb[3]
            ax = powr_axioms(ta[1], ta[2], tb[1], tb[2])
            cond = z3.Xor(ta[1] == ta[2], tb[1] == tb[2])
        else:
            dom = ta[3] + tb[3]
            ax = powr_axioms(ta[1], tb[1])
            cond = ta[1] != tb[1]
        r, m = ctx.query_lazy(dom + [cond], ax)
        if r == "sat" and ta[0] != "eq":
            # "up to floating-point rounding of constants the rule folded": a difference counts only when it exceeds
            # 1e-12 relative (the tolerance of the concrete replay); asked only after the exact query found a difference
            d = ta[1] - tb[1]
            scale = z3.If(ta[1] >= 0, ta[1], -ta[1]) * z3.RealVal("1/1000000000000")
            r, m = ctx.query_lazy(dom + [z3.Or(d > scale, -d > scale)], ax)
        if r == "sat" and (uses_uf(ta[1]) or uses_uf(tb[1]) or (ta[0] == "eq" and (uses_uf(ta[2]) or uses_uf(tb[2])))):
            # an uninterpreted power (non-integer exponent) is free to take any value: a 'sat' that rests on it proves
            # nothing.  Decided at concrete assignments instead (counted as concrete fallback).
            return "uf", m
        return {"unsat": "same", "sat": "differ", "unknown": "unknown"}[r], m
    assert env is not None
    try:
        if kind(a) == "eq":
            la, ra, lb, rb = ceval(a.left, env), ceval(a.right, env), ceval(b.left, env), ceval(b.right, env)
            if None in (la, ra, lb, rb):
                return "undefined", None
            return ("same" if close(la, ra) == close(lb, rb) else "differ"), None
        va, vb = ceval(a, env), ceval(b, env)
        if va is None or vb is None:
            return "undefined", None
        return ("same" if close(va, vb) else "differ"), None
    except Unsupported:
        return "undefined", None


def check_state(start: Any, state: Any, ctx: Optional[Ctx], envs: List[Dict[str, Any]], step: int, how: str):
    """-> (problems, model)"""
    problems: List[Problem] = []
    where = f"after step {step} ({how})"
    for p in audit(state):
        problems.append(("malformed", f"{where}: state '{V.safe_str(state)}' is malformed: {p}"))
    if problems:
        return problems, None
    if variables_of(state) != variables_of(start):
        problems.append(("variables", f"{where}: variables {variables_of(start)} became {variables_of(state)} in '{V.safe_str(state)}'"))
    text = V.safe_str(state)
    model = None
    try:
        back = ExpressionParser().parse(text)
    except Exception as e:
        return problems + [("reparse", f"{where}: state prints as '{text}', which the parser rejects ({type(e).__name__})")], None
    if ctx is not None:
        key = (state_key(start), state_key(state))
        if key not in EQ_CACHE:
            r1, m1 = equivalent(start, state, ctx, None)
            r2, m2 = equivalent(state, back, ctx, None)
            if "uf" in (r1, r2):
                names = variables_of(start)
                cenvs = ([model_env(m1 or m2, names)] if (m1 or m2) is not None else []) + ENVS

                def conc(a: Any, b: Any) -> str:
                    out = "same"
                    for env in cenvs:
                        try:
                            if equivalent(a, b, None, env)[0] == "differ":
                                out = "differ"
                        except Exception:
                            pass
                    return out

                if r1 == "uf":
                    r1, m1 = conc(start, state), None
                if r2 == "uf":
                    r2, m2 = conc(state, back), None
                UF_FALLBACKS[0] += 1
            EQ_CACHE[key] = (r1, r2, m1 if r1 == "differ" else (m2 if r2 == "differ" else None))
        r1, r2, m = EQ_CACHE[key]
        model = m
    else:
        r1 = r2 = "same"
        for env in envs:
            a, _ = equivalent(start, state, None, env)
            b, _ = equivalent(state, back, None, env)
            if a == "differ":
                r1 = "differ"
            if b == "differ":
                r2 = "differ"
    if r1 == "differ":
        problems.append(("not-equivalent", f"{where}: '{V.safe_str(state)}' is not equivalent to the start '{V.safe_str(start)}'"))
    if r2 == "differ":
        problems.append(("roundtrip", f"{where}: '{text}' re-parses to a different expression"))
    if "unknown" in (r1, r2):
        problems.append(("inconclusive", "solver unknown"))
    return problems, model


def applicable_moves(rules: List[Any], state: Any) -> List[Tuple[int, int]]:
    """The scan a search agent performs: every rule's own find_nodes on the current state."""
    order = {id(n): i for i, n in enumerate(preorder(state))}
    moves = []
    for ri, rule in enumerate(rules):
        try:
            nodes = rule.find_nodes(state)
        except Exception:
            continue
        for n in nodes:
            if id(n) in order:
                moves.append((ri, order[id(n)]))
    return moves


def run_cloned(start_builder: Any, k: int, chooser: Any, ctx: Optional[Ctx], envs: List[Dict[str, Any]], ask: bool = False):
    """One sequence.  chooser(n, label) -> index.  Returns (problems, trace, model).
    ask: the agent asks can_apply_to(node) on the chosen node of the current state right before cloning it (so the rule
    instance's most recent look was at the original, not at the clone)."""
    rules = [f() for _, f in RULES]  # long-lived instances, as an agent holds them
    start = start_builder()
    states = [start]
    snaps = [snapshot(start)]
    trace: List[Tuple[int, int]] = []
    for step in range(1, k + 1):
        cur = states[-1]
        moves = applicable_moves(rules, cur)
        if not moves:
            break
        ri, ni = moves[chooser(len(moves), f"m{step}_")]
        trace.append((ri, ni))
        node = preorder(cur)[ni]
        how = f"{RULES[ri][0]} at node {ni} of '{V.safe_str(cur)}'"
        try:
            if ask:
                rules[ri].can_apply_to(node)
            target = node.clone_from_root()
            new = root_of(rules[ri].apply_to(target).result)
        except Exception as e:
            return [("step-raised", f"step {step} ({how}) raised {type(e).__name__}: {str(e)[:80]}")], trace, None
        states.append(new)
        problems, model = check_state(start, new, ctx, envs, step, how)
        for i, (s, sn) in enumerate(zip(states[:-1], snaps)):
            if snapshot(s) != sn:
                problems.append(("earlier-state-altered", f"step {step} ({how}) altered the earlier state #{i}: '{sn[1]}' is now "
                                 f"'{V.safe_str(s)}'"))
        snaps.append(snapshot(new))
        if problems:
            return problems, trace, model
    return [], trace, None


def run_inplace(start_builder: Any, chooser: Any, ctx: Optional[Ctx], envs: List[Dict[str, Any]]):
    """query (R, n) / rewrite in place elsewhere with S / re-query R at n and apply: stale rule state shows here."""
    rules = [f() for _, f in RULES]
    root = start_builder()
    start_ref = start_builder()
    nodes = preorder(root)
    r1 = chooser(len(rules), "R")
    n1 = chooser(len(nodes), "n")
    try:
        rules[r1].can_apply_to(nodes[n1])
    except Exception:
        return [], [], None
    # an in-place rewrite by another rule somewhere in the tree
    # (the list of possible in-place moves is computed with throw-away instances so that the enumeration itself
    #  does not disturb the state of the long-lived ones)
    moves = [(ri, ni) for ri, (_, f) in enumerate(RULES) for ni, n in enumerate(nodes) if _can(f(), n)]
    if not moves:
        return [], [], None
    s, m = moves[chooser(len(moves), "S")]
    trace = [(r1, n1), (s, m)]
    try:
        mid = root_of(rules[s].apply_to(nodes[m]).result)
    except Exception:
        return [], trace, None
    if nodes[n1] not in preorder(mid):
        return [], trace, None  # the queried node is no longer part of the tree
    how = f"{RULES[r1][0]} queried at node {n1}, then {RULES[s][0]} applied in place at node {m}, then {RULES[r1][0]} asked again"
    try:
        again = bool(rules[r1].can_apply_to(nodes[n1]))
        # "the same answer for the same tree": the same tree built anew (new node objects, new ids), asked by a new instance
        twin = build(to_skel(mid), ConcreteProvider(literal_values(mid)))
        fresh = bool(RULES[r1][1]().can_apply_to(preorder(twin)[preorder(mid).index(nodes[n1])]))
    except Exception:
        return [], trace, None
    problems: List[Problem] = []
    if again != fresh:
        problems.append(("stale-answer", f"{how}: the long-lived rule answers {again} for '{V.safe_str(mid)}', a new instance on the same tree built anew {fresh}"))
    if again:
        try:
            final = root_of(rules[r1].apply_to(nodes[n1]).result)
        except Exception as e:
            return problems + [("step-raised", f"{how}: apply_to raised {type(e).__name__}")], trace, None
        p2, model = check_state(start_ref, final, ctx, envs, 2, how)
        return problems + p2, trace, model
    return problems, trace, None


def _can(rule: Any, n: Any) -> bool:
    try:
        return bool(rule.can_apply_to(n))
    except Exception:
        return False


def worker(item: Any) -> Dict[str, Any]:
    mode, label, sk, payload, k = item[:5]
    owner = item[5] if len(item) > 5 else "C09"
    kinds = OWNERS.get(owner)
    part = V.new_part()
    part["cases"] = 1
    st: Stats = part["stats"]
    EQ_CACHE.clear()
    UF_FALLBACKS[0] = 0

    def builder() -> Any:
        return build(sk, ConcreteProvider(payload))

    def h(ctx: Ctx) -> Any:
        chooser = lambda n, lab: ctx.choose(n, lab)
        # equivalence queries only where the owner's statement is about values
        ectx = ctx if kinds is None or "not-equivalent" in kinds else None
        with shims.installed():
            if mode in ("cloned", "asked"):
                problems, trace, model = run_cloned(builder, k, chooser, ectx, [], ask=(mode == "asked"))
            else:
                problems, trace, model = run_inplace(builder, chooser, ectx, [])
        env = model_env(model, variables_of(builder())) if model is not None else None
        return problems, trace, env

    results = explore(h, st, max_paths=40000, deadline=None)
    for r in results:
        if r.status != "ok":
            part["inconclusive"] += 1
            if len(part["inconclusive_samples"]) < 3:
                part["inconclusive_samples"].append(f"{label}: {r.status} {r.detail}")
            continue
        problems, trace, env = r.value
        if not trace:
            continue
        part["nontrivial"] = 1
        part["queries"] += 1
        real = [p for p in problems if p[0] != "inconclusive"]
        if len(real) != len(problems):
            part["inconclusive"] += 1
        if kinds is not None:
            real = [p for p in real if p[0] in kinds]
        if not real:
            part["proved"] += 1
            if len(part["samples"]) < 1 and len(trace) == k:
                part["samples"].append({"start": label, "mode": mode, "steps": [(RULES[a][0], b) for a, b in trace]})
            continue
        again = replay_trace(mode, sk, payload, k, trace, env)
        hit = [p for p in again if p[0] in {q[0] for q in real}]
        if hit:
            keys = {"fault": hit[0][0], "mode": mode, "rules": ">".join(RULES[a][0] for a, _ in trace)}
            part["violations"].append(Violation(owner, f"{mode}:{hit[0][0]}", keys, f"start '{label}': {hit[0][1]}",
                                                {"kind": "sequence", "mode": mode, "owner": owner, "skeleton": skel_json(sk),
                                                 "payloads": {str(a): b for a, b in payload.items()}, "k": k,
                                                 "trace": [list(t) for t in trace], "observed": hit[0][1]}))
        else:
            part["engine_mismatch"] += 1
            part["mismatch_samples"].append(f"{label} {trace}: {real[0][1][:200]}")
    part["reach"][mode] = 1
    part["fallback_concrete"] = part.get("fallback_concrete", 0) + UF_FALLBACKS[0]
    uniq = {}
    for v in part["violations"]:
        uniq.setdefault(v.ident(), v)
    part["violations"] = list(uniq.values())
    return part


def replay_trace(mode: str, sk: Any, payload: Dict[int, Any], k: int, trace: List[Tuple[int, int]], env: Optional[Dict[str, Any]]):
    """The same sequence again on new objects, without proxies or stubs, values compared at concrete assignments."""
    picks = []

    def builder() -> Any:
        return build(sk, ConcreteProvider(payload))

    envs = ([env] if env else []) + ENVS
    if mode in ("cloned", "asked"):
        it = iter(trace)
        rules_moves: List[Any] = []

        def chooser(n: int, lab: str) -> int:
            want = next(it)
            return chooser.moves.index(want) if want in chooser.moves else 0  # type: ignore[attr-defined]

        # run_cloned computes `moves` itself; re-implement the choice by matching the recorded (rule, node) pair
        return _replay_cloned(builder, k, trace, envs, ask=(mode == "asked"))
    seq = list(trace)

    def chooser2(n: int, lab: str) -> int:
        if lab == "R":
            return seq[0][0]
        if lab == "n":
            return seq[0][1]
        return chooser2.idx  # type: ignore[attr-defined]

    # find the index of the recorded in-place move in the move list
    nodes = preorder(builder())
    moves = [(ri, ni) for ri, (_, f) in enumerate(RULES) for ni, n in enumerate(nodes) if _can(f(), n)]
    if len(seq) < 2 or seq[1] not in moves:
        return []
    chooser2.idx = moves.index(seq[1])  # type: ignore[attr-defined]
    problems, _, _ = run_inplace(builder, chooser2, None, envs)
    return problems


def _replay_cloned(builder: Any, k: int, trace: List[Tuple[int, int]], envs: List[Dict[str, Any]], ask: bool = False) -> List[Problem]:
    rules = [f() for _, f in RULES]
    start = builder()
    states = [start]
    snaps = [snapshot(start)]
    for step, (ri, ni) in enumerate(trace, 1):
        cur = states[-1]
        moves = applicable_moves(rules, cur)
        if (ri, ni) not in moves:
            return []
        node = preorder(cur)[ni]
        how = f"{RULES[ri][0]} at node {ni} of '{V.safe_str(cur)}'"
        try:
            if ask:
                rules[ri].can_apply_to(node)
            new = root_of(rules[ri].apply_to(node.clone_from_root()).result)
        except Exception as e:
            return [("step-raised", f"step {step} ({how}) raised {type(e).__name__}: {str(e)[:80]}")]
        states.append(new)
        problems, _ = check_state(start, new, None, envs, step, how)
        for i, (s, sn) in enumerate(zip(states[:-1], snaps)):
            if snapshot(s) != sn:
                problems.append(("earlier-state-altered", f"step {step} ({how}) altered the earlier state #{i}"))
        snaps.append(snapshot(new))
        if problems:
            return problems
    return []


def replay_record(rec: Dict[str, Any]) -> Tuple[bool, str]:
    probs = replay_trace(rec["mode"], skel_unjson(rec["skeleton"]), {int(a): b for a, b in rec["payloads"].items()}, rec["k"],
                         [tuple(t) for t in rec["trace"]], None)
    kinds = OWNERS.get(rec.get("owner", "C09"))
    if kinds is not None:
        probs = [p for p in probs if p[0] in kinds]
    return bool(probs), "; ".join(p[1] for p in probs)


def starts(tier: str) -> List[Tuple[str, Any, Dict[int, Any]]]:
    out: List[Tuple[str, Any, Dict[int, Any]]] = []
    limit = 11 if tier == "quick" else 17
    for lab, sk, vals in family_B(limit):
        out.append((lab.split(":", 1)[1], sk, vals))
    for sk in enum_upto(4 if tier == "quick" else 5, unops=("neg",)):
        roles = slot_roles(sk)
        if sk_size(sk) < 3:
            continue
        for variant in ({"coef": 2, "exp": 2, "fact": 3}, {"coef": -3, "exp": 0, "fact": 0}, {"coef": 0.00003, "exp": 2, "fact": 3}):
            out.append((sk_str(sk), sk, {s: variant[r] for s, r in roles.items()}))
    # + / * chains with 3 (thorough: 4) leaves: the chained / regrouped forms the rules special-case
    kx = ("mul", ("const", 0), ("var", "x"))
    chain_leaves = [("const", 0), ("var", "x"), kx] + ([("var", "y")] if tier != "quick" else [])
    for sk in V.am_chains(3, chain_leaves) + (V.am_chains(4, [("var", "x"), kx])[:] if tier != "quick" else []):
        roles = slot_roles(sk)
        out.append((sk_str(sk), sk, {s_: 2 + i for i, s_ in enumerate(sorted(roles))}))
    # small equations: every pairing of five side forms (a coefficient move followed by addend moves needs both)
    sides = [("var", "x"), kx, ("add", ("var", "x"), ("const", 0)), ("add", ("var", "y"), ("const", 0)),
             ("add", kx, ("var", "y"))]
    from ..trees import renumber

    for l_ in sides:
        for r_ in sides:
            sk = renumber(("eq", l_, r_))
            roles = slot_roles(sk)
            out.append((sk_str(sk), sk, {s_: 2 + 2 * i for i, s_ in enumerate(sorted(roles))}))
    extra = ["(x * y) * (b + c)", "2x * y + 3x", "2x * y", "4x + (2x + y)", "5 + 3x + y", "3x = 6", "2 * 3x = 12", "x - (y + 3 + z) = 2",
             "x + 2 + y = 3", "(z + 3) * (x + 2y)", "4 / y * z", "7 - 1.5^x", "x / (y / 2) + 1", "4x^2 + 2x^2 + x", "x^2 * x^3 * x",
             "(1 / 40000 / 50000) * 40000 * 50000 + x", "x * (3 / 60000 / 60000)", "0.00002 * 0.00003 + x", "y = x / (1 / 200000 / 300000)"]
    for text in extra:
        try:
            t = ExpressionParser().parse(text)
        except Exception:
            continue
        out.append((text, to_skel(t), literal_values(t)))
    seen = set()
    uniq = []
    for lab, sk, vals in out:
        key = (sk, tuple(sorted(vals.items())))
        if key not in seen:
            seen.add(key)
            uniq.append((lab, sk, vals))
    return uniq


def run(tier: str) -> int:
    rep = Report("C09", tier)
    sts = starts(tier)
    items = []
    for lab, sk, vals in sts:
        n = sk_size(sk)
        k = 2 if tier == "quick" else (3 if n <= 7 else 2)
        items.append(("cloned", lab, sk, vals, k))
        items.append(("asked", lab, sk, vals, 2))
        if n <= (7 if tier == "quick" else 11):
            items.append(("inplace", lab, sk, vals, 2))
    rep.bounds = {"starts": f"{len(sts)} start expressions: rule example inputs as written, small trees with two payload variants, "
                            "hand-picked multi-step seeds", "steps": "k = 2 (thorough: 3 on starts with <= 7 nodes), every choice of "
                  "(rule-option, applicable node) at every step", "in_place_mode": "query (R, n), one in-place rewrite anywhere, "
                  "re-query R at n and apply; all combinations on small starts", "assignment": "unbounded reals (solver variables)"}
    rep.functions = V.FUNCTIONS + ["BaseRule.find_nodes (scan on long-lived rule instances)", "MathExpression.clone_from_root",
                                   "__str__ + ExpressionParser.parse on every state"]
    rep.stubs = shims.STUBS
    rep.explanation = (
        "Bounded unrolling with concrete payloads (every state must be printed) and solver-enumerated choices: per start and "
        "per sequence of k (rule-option, node) choices - found by the rules' own find_nodes on rule instances that live for "
        "the whole sequence, applied to node.clone_from_root() - every new state passes the structure audit, prints and "
        "re-parses to an equivalent expression, is equivalent to the START for every assignment (z3), has the same variables, "
        "and leaves every earlier state byte-identical. The inductive step that covers longer histories is C01+C02+C04+C07 on "
        "arbitrary well-formed trees (not only parser images). In-place mode: stale rule-instance state between two states "
        "of one tree.")
    rep.assumptions = ["sequences longer than k and start trees beyond the stated families are outside the claim"]
    random.Random(seed()).shuffle(items)
    items.sort(key=lambda it: -sk_size(it[2]))
    collect(rep, pmap(worker, items, budget_s=420 if tier == "quick" else 720, chunk=2))
    return rep.finish(required_reach=["cloned", "inplace"])


def cross(rep: Report, tier: str, owner: str) -> None:
    """The two-step sequences of C09 (long-lived rule instances; cloned, asked and in-place modes), run inside another
    property's check: only the fault kinds that property's statement names are reported, under its id."""
    items = []
    for lab, sk, vals in starts("quick"):  # both tiers: the larger start family of the thorough tier is C09's own
        is_eq = sk[0] == "eq"
        if (owner == "C01" and is_eq) or (owner == "C02" and not is_eq):
            continue
        n = sk_size(sk)
        items.append(("cloned", lab, sk, vals, 2, owner))
        items.append(("asked", lab, sk, vals, 2, owner))
        if n <= (7 if tier == "quick" else 11):
            items.append(("inplace", lab, sk, vals, 2, owner))
    rep.bounds["two_step_sequences"] = (
        f"{len(items)} runs: from each start expression of the C09 family every 2-step sequence of (rule-option, applicable "
        "node) on rule instances that live for the whole sequence - applied to clone_from_root() copies, with or without a "
        "can_apply_to on the original first, and in place with a re-query - reporting only " + ", ".join(sorted(OWNERS[owner])))
    rep.functions += ["BaseRule.find_nodes / can_apply_to / apply_to on long-lived rule instances (2-step sequences)"]
    random.Random(seed()).shuffle(items)
    items.sort(key=lambda it: -sk_size(it[2]))
    collect(rep, pmap(worker, items, budget_s=240 if tier == "quick" else 360, chunk=2))
