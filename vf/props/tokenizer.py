"""C11: tokenizing is lossless, total and faithful to character classes.

The real Tokenizer.tokenize runs on a string whose L characters are solver variables (any code point);
every comparison it makes on a character forks through z3.  On each feasible path the result is
compared - by solver validity over all characters of the path's class - with a reference tokenizer
written from the statement of C11 (maximal digit/dot runs, letter runs, registered names, operator
table with the three normalisations, padding switch, ValueError for everything else).
"""
from __future__ import annotations

import itertools
import random
from typing import Any, Dict, List, Optional, Tuple

import z3

from mathy_core.tokenizer import TOKEN_TYPES, Token, Tokenizer

from ..core import Report, Violation, collect, out_of_time, pmap, seed
from ..symstr import SymKeyDict, SymStr, fresh_string
from ..symx import Budget, Ctx, Stats, _arm, explore

T = TOKEN_TYPES
WS = [32, 9, 13, 10]
OPS: List[Tuple[int, str, int]] = [
    (ord("+"), "+", T.Plus), (ord("-"), "-", T.Minus), (0x2013, "-", T.Minus), (ord("*"), "*", T.Multiply),
    (ord("/"), "/", T.Divide), (ord("^"), "^", T.Exponent), (ord("!"), "!", T.Factorial),
    (ord("("), "(", T.OpenParen), (ord("["), "(", T.OpenParen), (ord(")"), ")", T.CloseParen),
    (ord("]"), ")", T.CloseParen), (ord("="), "=", T.Equal),
]


def _or(*xs: Any) -> Any:
    if all(isinstance(x, bool) for x in xs):
        return any(xs)
    return z3.Or([x if not isinstance(x, bool) else z3.BoolVal(x) for x in xs])


def _and(*xs: Any) -> Any:
    if all(isinstance(x, bool) for x in xs):
        return all(xs)
    return z3.And([x if not isinstance(x, bool) else z3.BoolVal(x) for x in xs])


def is_num(c: Any) -> Any:
    return _or(c == 46, _and(c >= 48, c <= 57))


def is_alpha(c: Any) -> Any:
    return _or(_and(c >= 97, c <= 122), _and(c >= 65, c <= 90))


def decide(ctx: Optional[Ctx], cond: Any) -> bool:
    if isinstance(cond, bool):
        return cond
    assert ctx is not None
    return ctx.branch(cond)


def function_names() -> List[str]:
    return sorted(Tokenizer().functions.keys())


def ref_tokenize(chars: List[Any], padding: bool, ctx: Optional[Ctx], names: List[str]):
    """Reference tokenizer from the statement of C11.  chars: z3 Int terms or Python ints.
    Returns ('ok', [(type, [char, ...]), ...]) or ('error', index)."""
    out: List[Tuple[int, List[Any]]] = []
    i, n = 0, len(chars)
    while i < n:
        c = chars[i]
        if decide(ctx, is_num(c)):
            j = i + 1
            while j < n and decide(ctx, is_num(chars[j])):
                j += 1
            out.append((T.Constant, list(chars[i:j])))
            i = j
            continue
        if decide(ctx, is_alpha(c)):
            j = i + 1
            while j < n and decide(ctx, is_alpha(chars[j])):
                j += 1
            run = list(chars[i:j])
            fn = None
            for name in names:
                if len(name) == len(run) and decide(ctx, _and(*[r == ord(ch) for r, ch in zip(run, name)])):
                    fn = name
                    break
            if fn is not None:
                out.append((T.Function, run))
            else:
                for r in run:
                    out.append((T.Variable, [r]))
            i = j
            continue
        hit = False
        for code in WS:
            if decide(ctx, c == code):
                if padding:
                    out.append((T.Pad, [c]))
                hit = True
                break
        if not hit:
            for code, text, ty in OPS:
                if decide(ctx, c == code):
                    out.append((ty, [ord(text)]))
                    hit = True
                    break
        if not hit:
            return "error", i
        i += 1
    out.append((T.EOF, []))
    return "ok", out


def value_chars(v: Any) -> List[Any]:
    if isinstance(v, SymStr):
        return list(v.chars)
    return [ord(ch) for ch in str(v)]


def run_real(text: Any, padding: bool, symbolic: bool):
    tk = Tokenizer(exclude_padding=not padding)
    if symbolic:
        tk.functions = SymKeyDict(tk.functions)
    try:
        toks = tk.tokenize(text)
    except ValueError:
        return "error", "ValueError"
    except Budget:
        if Ctx.cur is not None:
            Ctx.cur.steps = 0  # spent; what follows (reference model, model extraction) gets a new budget
        return "raised", "no result within the step / wall-clock budget (non-terminating?)"
    except Exception as e:
        return "raised", type(e).__name__
    return "ok", [(t.type, value_chars(t.value)) for t in toks]


def norm(c: Any) -> Any:
    if isinstance(c, int):
        return {0x2013: 45, 91: 40, 93: 41}.get(c, c)
    return z3.If(c == 0x2013, z3.IntVal(45), z3.If(c == 91, z3.IntVal(40), z3.If(c == 93, z3.IntVal(41), c)))


def compare(chars: List[Any], ctx: Optional[Ctx], names: List[str], text: Any) -> Tuple[List[str], int]:
    """All assertions of C11 for one string (symbolic: one path).  Returns (problems, solver queries)."""
    problems: List[str] = []
    nq = 0

    def holds(cond: Any) -> bool:
        nonlocal nq
        if isinstance(cond, bool):
            return cond
        nq += 1
        r, _ = ctx.valid(cond)  # type: ignore[union-attr]
        return r != "cex"

    results = {}
    for padding in (True, False):
        real = run_real(text, padding, ctx is not None)
        ref = ref_tokenize(chars, padding, ctx, names)
        results[padding] = real
        mode = "padding kept" if padding else "padding dropped"
        if real[0] == "raised":
            problems.append(f"internal-error: tokenize raised {real[1]} ({mode})")
            continue
        if ref[0] == "error":
            if real[0] != "error":
                problems.append(f"unsupported-accepted: character #{ref[1]} is in no class but tokenize returned tokens ({mode})")
            continue
        if real[0] == "error":
            problems.append(f"supported-rejected: every character is supported but tokenize raised ValueError ({mode})")
            continue
        rt, ft = real[1], ref[1]
        if [t for t, _ in rt] != [t for t, _ in ft] or [len(v) for _, v in rt] != [len(v) for _, v in ft]:
            problems.append(f"classes: token types/lengths {[(t, len(v)) for t, v in rt]} differ from the reference "
                            f"{[(t, len(v)) for t, v in ft]} ({mode})")
            continue
        eqs = [a == b for (_, va), (_, vb) in zip(rt, ft) for a, b in zip(va, vb)]
        if eqs and not holds(_and(*eqs)):
            problems.append(f"values: token texts differ from the reference ({mode})")
        if sum(1 for t, _ in rt if t == T.EOF) != 1 or rt[-1][0] != T.EOF:
            problems.append(f"eof: the stream does not end with exactly one end marker ({mode})")
        if padding:
            flat = [c for _, v in rt for c in v]
            if len(flat) != len(chars):
                problems.append(f"lossless: tokens cover {len(flat)} characters of {len(chars)}")
            elif flat and not holds(_and(*[a == norm(b) for a, b in zip(flat, chars)])):
                problems.append("lossless: concatenated token values differ from the normalised input")
    a, b = results[True], results[False]
    if a[0] == "ok" and b[0] == "ok":
        kept = [(t, v) for t, v in a[1] if t != T.Pad]
        if [t for t, _ in kept] != [t for t, _ in b[1]] or [len(v) for _, v in kept] != [len(v) for _, v in b[1]]:
            problems.append("padding: dropping padding changed more than the whitespace tokens")
        else:
            eqs = [x == y for (_, va), (_, vb) in zip(kept, b[1]) for x, y in zip(va, vb)]
            if eqs and not holds(_and(*eqs)):
                problems.append("padding: dropping padding changed token texts")
    elif a[0] != b[0]:
        problems.append(f"padding: outcome differs between the padding modes ({a[0]} / {b[0]})")
    return problems, nq


def concrete_check(text: str) -> List[str]:
    _arm(10.0)  # a tokenizer that does not return within 10 s on a string of a few characters does not terminate
    try:
        return compare([ord(ch) for ch in text], None, function_names(), text)[0]
    finally:
        _arm(0)


# character classes used to split the exploration over the workers (they cover all code points)
def char_classes() -> List[Any]:
    singles = sorted({46} | set(WS) | {c for c, _, _ in OPS} | {ord(ch) for name in function_names() for ch in name})
    cl: List[Any] = [(lambda c, v=v: c == v) for v in singles]
    cl.append(lambda c: z3.And(c >= 48, c <= 57))
    cl.append(lambda c: z3.And(is_alpha(c), z3.And([c != v for v in singles])))
    cl.append(lambda c: z3.And(z3.Not(is_num(c)), z3.Not(is_alpha(c)), z3.And([c != v for v in singles])))
    return cl


def worker(item: Any) -> Dict[str, Any]:
    L, pre = item[0], item[1]
    fixed: Dict[int, int] = item[2] if len(item) > 2 else {}
    st = Stats()
    names = function_names()
    classes = char_classes()
    part: Dict[str, Any] = {"stats": st, "cases": 1, "nontrivial": 0, "proved": 0, "queries": 0, "inconclusive": 0,
                            "violations": [], "samples": [], "reach": {}, "inconclusive_samples": [],
                            "engine_mismatch": 0, "mismatch_samples": []}

    def h(ctx: Ctx) -> Any:
        s = fresh_string(L)
        for i, k in enumerate(pre):
            ctx.add(classes[k](s.chars[i]))
        for i, code in fixed.items():
            ctx.add(s.chars[i] == code)
        problems, nq = compare(list(s.chars), ctx, names, s)
        text = s.concrete(ctx.ensure_model()) if problems or ctx.stats.paths % 97 == 0 else None
        return problems, nq, text

    for r in explore(h, st, max_paths=400000):
        if r.status != "ok":
            part["inconclusive"] += 1
            if len(part["inconclusive_samples"]) < 3:
                part["inconclusive_samples"].append(f"L={L} prefix classes {pre}: {r.status} {r.detail}")
            continue
        problems, nq, text = r.value
        part["nontrivial"] += 1
        part["queries"] += max(1, nq)
        if not problems:
            part["proved"] += max(1, nq)
            if text is not None:
                # validated trace: the engine's verdict for this path's class against a concrete member
                if concrete_check(text):
                    part["engine_mismatch"] += 1
                    part["mismatch_samples"].append(f"engine passed but {text!r} fails concretely")
                else:
                    part["validated"] = part.get("validated", 0) + 1
                    if len(part["samples"]) < 1:
                        part["samples"].append({"string": text, "codepoints": [ord(c) for c in text]})
            continue
        again = concrete_check(text)
        if again:
            fault = again[0].split(":")[0]
            part["violations"].append(Violation("C11", fault, {"fault": fault}, f"tokenize({text!r}): {again[0]}",
                                                {"kind": "string", "text": text, "codepoints": [ord(c) for c in text],
                                                 "observed": again}))
        else:
            part["engine_mismatch"] += 1
            part["mismatch_samples"].append(f"{text!r}: {problems[0]}")
    part["reach"][f"L{L}"] = 1
    uniq = {}
    for v in part["violations"]:
        uniq.setdefault(v.site, v)
    part["violations"] = list(uniq.values())
    return part


def replay_record(rec: Dict[str, Any]) -> Tuple[bool, str]:
    text = "".join(chr(c) for c in rec["codepoints"])
    probs = concrete_check(text)
    return bool(probs), "; ".join(probs)


def run(tier: str) -> int:
    rep = Report("C11", tier)
    Lmax = 3 if tier == "quick" else 4
    ncls = len(char_classes())
    items: List[Tuple[int, Tuple[int, ...]]] = [(0, ())]
    for L in range(1, Lmax + 1):
        split = min(L, 2)
        for pre in itertools.product(range(ncls), repeat=split):
            items.append((L, pre))
    # strings around a registered function name: one or two free characters before and after it
    for name in function_names():
        for before, after in ((1, 0), (0, 1), (1, 1), (2, 0), (0, 2)) + (((2, 1), (1, 2)) if tier != "quick" else ()):
            L = before + len(name) + after
            fx = {before + i: ord(ch) for i, ch in enumerate(name)}
            items.append((L, (), fx))
        items.append((2 * len(name), (), {i: ord(ch) for i, ch in enumerate(name + name)}))
    rep.bounds = {"around_function_names": "every string  c* + name + c*  with up to two free characters around each registered "
                  "function name (any code point)", "length": f"every string of length <= {Lmax}", "alphabet": "every Unicode code point 0..0x10FFFF per character",
                  "padding": "both modes on every string", "registered_functions": function_names()}
    rep.functions = ["Tokenizer.tokenize", "identify_constants", "identify_alphas", "identify_operators", "eat_token",
                     "is_alpha", "is_number", "TokenContext"]
    rep.stubs = ["Tokenizer.functions replaced by a dict subclass that compares keys with the solver (a hash would force "
                 "concrete letters)"]
    rep.explanation = (
        "Bounded symbolic execution of the real tokenizer on strings of solver-variable characters (SymStr). One path = "
        "one class of strings; on every path the token list is compared with a reference tokenizer written from the "
        "statement (types and lengths structurally, texts by z3 validity over all characters of the class), "
        "losslessness 'concat(values) = normalised input' and the padding relation are separate validity queries, and "
        "ValueError must occur exactly when the reference finds a character outside every class. The exploration is split "
        "over workers by the classes of the first two characters (assumptions that partition all code points).")
    rep.assumptions = ["strings longer than the bound are outside the claim", "the function table is the one a fresh Tokenizer has"]
    random.Random(seed()).shuffle(items)
    collect(rep, pmap(worker, items, budget_s=420 if tier == "quick" else 720, chunk=4))
    return rep.finish(required_reach=[f"L{L}" for L in range(1, Lmax + 1)])
