"""C04: printing an expression and parsing it back preserves its meaning."""
from __future__ import annotations

import random
from fractions import Fraction
from typing import Any, Dict, List, Optional, Tuple

import z3

from mathy_core.parser import ExpressionParser

from .. import shims
from ..core import Report, Violation, collect, out_of_time, pmap, seed
from ..rulekit import RULES, RULE_BY_NAME, family_B, literal_values, skel_json, skel_unjson, test_json_inputs
from ..symx import Ctx, Stats, Unsupported, explore, frac_of
from ..trees import (
    ConcreteProvider,
    build,
    enum_upto,
    kind,
    preorder,
    renumber,
    root_of,
    shape,
    sk_size,
    sk_str,
    slot_roles,
    variables_of,
)
from ..zeval import Undefined, ceval, close, powr_axioms, var, zeval_top
from . import value as V

POOLS = {
    1: {"coef": [0, 1, 2, 3, 12, -1, -3, 0.5, -0.25, 1.5, 1e21, 1e-7], "exp": [2, 3, -1, 0, 0.5, -2], "fact": [0, 3]},
    2: {"coef": [2, -3, 0.5, 0, 1], "exp": [2, -1, 0.5], "fact": [0, 3]},
    3: {"coef": [2, -3, 0.5], "exp": [2, -1], "fact": [3]},
}


def pool_for(nslots: int) -> Dict[str, List[Any]]:
    return POOLS[min(3, max(1, nslots))]


def roundtrip(tree: Any, ctx: Optional[Ctx], env: Optional[Dict[str, Any]]):
    """-> (problems, asked, proved, model). problems: [(label, text)]"""
    problems: List[Tuple[str, str]] = []
    asked = proved = 0
    try:
        text = str(tree)
    except Exception as e:
        return [("print-raised", f"str() of {shape(tree)} raised {type(e).__name__}")], 0, 0, None
    try:
        back = ExpressionParser().parse(text)
    except Exception as e:
        return [("reparse-raised", f"'{text}' (printed from {shape(tree)}) is not accepted by the parser: "
                 f"{type(e).__name__}")], 0, 0, None
    if variables_of(back) != variables_of(tree):
        problems.append(("variables", f"'{text}' re-parses with variables {variables_of(back)}, the tree has {variables_of(tree)}"))
    if (kind(tree) == "eq") != (kind(back) == "eq"):
        problems.append(("equation", f"'{text}' printed from {shape(tree)} re-parses as {shape(back)}"))
        return problems, asked, proved, None
    if ctx is not None:
        try:
            a = zeval_top(tree, ctx)
            b = zeval_top(back, ctx)
        except Undefined:
            return problems, asked, proved, None
        asked += 1
        if a[1].eq(b[1]) and (a[0] != "eq" or a[2].eq(b[2])):
            # the re-parsed tree denotes syntactically the same term: nothing for the solver to do
            return problems, asked, proved + 1, None
        if a[0] == "eq":
            dom = a[3] + b[3]
            ax = powr_axioms(a[1], a[2], b[1], b[2])
            cond = z3.Xor(a[1] == a[2], b[1] == b[2])
        else:
            dom = a[3] + b[3]
            ax = powr_axioms(a[1], b[1])
            cond = a[1] != b[1]
        r, m = ctx.query_lazy(dom + [cond], ax)
        if r == "unsat":
            proved += 1
        elif r == "sat":
            problems.append(("meaning", f"'{text}' printed from {shape(tree)} re-parses as {shape(back)}"))
            return problems, asked, proved, m
        else:
            problems.append(("inconclusive", "solver unknown"))
        return problems, asked, proved, None
    assert env is not None
    try:
        if kind(tree) == "eq":
            la, ra = ceval(tree.left, env), ceval(tree.right, env)
            lb, rb = ceval(back.left, env), ceval(back.right, env)
            if None not in (la, ra, lb, rb) and close(la, ra) != close(lb, rb):
                problems.append(("meaning", f"'{text}' printed from {shape(tree)} re-parses as the equation {shape(back)} "
                                 f"with a different truth value at {V_env(env)}"))
        else:
            va, vb = ceval(tree, env), ceval(back, env)
            if va is not None and vb is not None and not close(va, vb):
                problems.append(("meaning", f"'{text}' printed from {shape(tree)} re-parses as {shape(back)}: "
                                 f"{float(va)} vs {float(vb)} at {V_env(env)}"))
    except Unsupported:
        pass
    return problems, asked, proved, None


def V_env(env: Dict[str, Any]) -> str:
    return "{" + ", ".join(f"{k}={v}" for k, v in sorted(env.items()) if v is not None) + "}"


ENVS = [{"x": Fraction(2), "y": Fraction(3), "z": Fraction(5), "w": Fraction(7)},
        {"x": Fraction(-3, 2), "y": Fraction(7, 3), "z": Fraction(-2), "w": Fraction(1, 5)},
        {"x": Fraction(5, 4), "y": Fraction(-2), "z": Fraction(3), "w": Fraction(-1, 3)}]


def pair_key(tree: Any) -> str:
    """parent/child kind pairs with side, to key printer findings."""
    pairs = set()
    for n in preorder(tree):
        for side in ("left", "right"):
            ch = getattr(n, side)
            if ch is not None and kind(n) not in ("const", "var"):
                ck = kind(ch)
                if ck == "const":
                    try:
                        ck = "negconst" if ch.value < 0 else "const"
                    except Exception:
                        pass
                pairs.add(f"{kind(n)}.{side[0]}:{ck}")
    return ",".join(sorted(pairs))


def concrete_roundtrip(tree_builder: Any, env: Optional[Dict[str, Any]]) -> List[Tuple[str, str]]:
    for e in ([env] if env else []) + ENVS:
        probs, _, _, _ = roundtrip(tree_builder(), None, e)
        probs = [p for p in probs if p[0] != "inconclusive"]
        if probs:
            return probs
    return []


def model_env(m: Any, names: List[str]) -> Dict[str, Any]:
    env = {}
    for n in names:
        v = frac_of(m.eval(var(n), model_completion=True))
        env[n] = v if v is not None else Fraction(1)
    return env


def new_part() -> Dict[str, Any]:
    return {"stats": Stats(), "cases": 0, "nontrivial": 0, "proved": 0, "queries": 0, "inconclusive": 0, "violations": [],
            "samples": [], "reach": {}, "inconclusive_samples": [], "engine_mismatch": 0, "mismatch_samples": [], "validated": 0}


def handle(part: Dict[str, Any], results: Any, rebuild: Any, label: str, replay: Dict[str, Any]) -> None:
    for r in results:
        if r.status != "ok":
            part["inconclusive"] += 1
            if len(part["inconclusive_samples"]) < 3:
                part["inconclusive_samples"].append(f"{label}: {r.status} {r.detail}")
            continue
        problems, asked, proved, payload, env, text = r.value
        part["nontrivial"] += 1
        part["queries"] += max(1, asked)
        real = [p for p in problems if p[0] != "inconclusive"]
        if len(real) != len(problems):
            part["inconclusive"] += 1
        if not real:
            part["proved"] += max(1, proved)
            if len(part["samples"]) < 1:
                part["samples"].append({"tree": label, "payloads": payload, "text": text})
            continue
        again = concrete_roundtrip(lambda: rebuild(payload), env)
        hit = [p for p in again if p[0] in {q[0] for q in real}]
        if hit:
            t = rebuild(payload)
            keys = {"fault": hit[0][0], "shape": shape(t), "pairs": pair_key(t)}
            part["violations"].append(Violation("C04", hit[0][0], keys, hit[0][1], dict(replay, payloads=payload, observed=hit[0][1])))
        else:
            part["engine_mismatch"] += 1
            part["mismatch_samples"].append(f"{label} {payload}: {real[0][1]}")


def tree_worker(sk: Any) -> Dict[str, Any]:
    part = new_part()
    part["cases"] = 1
    roles = slot_roles(sk)
    slots = sorted(roles)
    pool = pool_for(len(slots))

    def rebuild(payload: Dict[int, Any]) -> Any:
        return build(sk, ConcreteProvider({int(k): v for k, v in payload.items()}))

    def h(ctx: Ctx) -> Any:
        payload = {s: pool[roles[s]][ctx.choose(len(pool[roles[s]]), f"p{s}_")] for s in slots}
        tree = rebuild(payload)
        problems, asked, proved, m = roundtrip(tree, ctx, None)
        env = model_env(m, variables_of(tree)) if m is not None else None
        return problems, asked, proved, payload, env, V.safe_str(tree)

    results = explore(h, part["stats"], max_paths=5000)
    handle(part, results, rebuild, sk_str(sk), {"kind": "print", "source": "tree", "skeleton": skel_json(sk)})
    part["reach"]["tree"] = 1
    return part


def rewrite_worker(item: Tuple[str, Any, Dict[int, Any]]) -> Dict[str, Any]:
    """Round trip of every result of one rule application on a concrete start tree."""
    label, sk, payload0 = item
    part = new_part()
    part["cases"] = 1
    n = sk_size(sk)

    def result_tree(sel: Tuple[int, int]) -> Optional[Any]:
        root = build(sk, ConcreteProvider(payload0))
        node = preorder(root)[sel[1]]
        rule = RULES[sel[0]][1]()
        try:
            if not rule.can_apply_to(node):
                return None
            return root_of(rule.apply_to(node).result)
        except Exception:
            return None

    def h(ctx: Ctx) -> Any:
        sel = (ctx.choose(len(RULES), "rule"), ctx.choose(n, "node"))
        tree = result_tree(sel)
        if tree is None:
            return [], 0, 0, {"rule": sel[0], "node": sel[1]}, None, None
        problems, asked, proved, m = roundtrip(tree, ctx, None)
        env = model_env(m, variables_of(tree)) if m is not None else None
        return problems, max(asked, 1), proved, {"rule": sel[0], "node": sel[1]}, env, V.safe_str(tree)

    def rebuild(sel: Dict[str, int]) -> Any:
        return result_tree((sel["rule"], sel["node"]))

    results = explore(h, part["stats"], max_paths=5000)
    handle(part, results, rebuild, f"rewrite of '{label}'",
           {"kind": "print", "source": "rewrite", "skeleton": skel_json(sk), "start_payloads": {str(k): v for k, v in payload0.items()}})
    part["reach"]["rewrite"] = 1
    return part


def worker(item: Any) -> Dict[str, Any]:
    part = tree_worker(item[1]) if item[0] == "tree" else rewrite_worker(item[1])
    uniq = {}
    for v in part["violations"]:
        uniq.setdefault(v.ident(), v)
    part["violations"] = list(uniq.values())
    return part


def replay_record(rec: Dict[str, Any]) -> Tuple[bool, str]:
    sk = skel_unjson(rec["skeleton"])
    if rec["source"] == "tree":
        pay = {int(k): v for k, v in rec["payloads"].items()}
        probs = concrete_roundtrip(lambda: build(sk, ConcreteProvider(pay)), None)
    else:
        pay0 = {int(k): v for k, v in rec["start_payloads"].items()}
        sel = rec["payloads"]

        def mk() -> Any:
            root = build(sk, ConcreteProvider(pay0))
            node = preorder(root)[sel["node"]]
            rule = RULES[sel["rule"]][1]()
            return root_of(rule.apply_to(node).result)

        probs = concrete_roundtrip(mk, None)
    return bool(probs), "; ".join(p[1] for p in probs)


UNOPS = ("neg", "sgn", "fact")


def chains(depth: int) -> List[Any]:
    """Nested operator chains: each level wraps the previous one on either side of a binary operator (the other
    operand a leaf) or under a one-operand node.  Reaches the deep parent/child/grandchild combinations
    (e.g. ((a+b)^y)^z, x / -(5z * -3)) that the all-trees family cannot within its size bound."""
    inner = [("var", "x"), ("const", 0), ("mul", ("const", 0), ("var", "x"))]
    level = inner
    for _ in range(depth):
        nxt: List[Any] = []
        for t in level:
            for op in ("add", "sub", "mul", "div", "pow"):
                others = [("var", "y")] if op in ("add", "sub") else [("var", "y"), ("const", 0)]
                for o in others:
                    nxt.append((op, t, o))
                    nxt.append((op, o, t))
            nxt.append(("neg", t))
            nxt.append(("sgn", t))
        level = nxt
    return [renumber(t) for t in level]


def run(tier: str) -> int:
    rep = Report("C04", tier)
    n = 5 if tier == "quick" else 6
    sks = list(enum_upto(n, unops=UNOPS))
    eqs = [renumber(("eq", l, r)) for l in enum_upto(3, unops=UNOPS)
           for r in enum_upto(2 if tier == "quick" else 3, unops=UNOPS)]
    starts: List[Tuple[str, Any, Dict[int, Any]]] = [(lab, sk, vals) for lab, sk, vals in family_B(40)]
    small = list(enum_upto(4 if tier == "quick" else 5, unops=UNOPS))
    for sk in small:
        roles = slot_roles(sk)
        for variant in ({"coef": 2, "exp": 2, "fact": 3}, {"coef": -3, "exp": -1, "fact": 0}, {"coef": 0.5, "exp": 3, "fact": 3}):
            starts.append((sk_str(sk), sk, {s: variant[r] for s, r in roles.items()}))
    rep.bounds = {
        "trees": f"every tree with <= {n} nodes over const/x/y, + - * / ^, neg sgn fact ({len(sks)}) and {len(eqs)} equations",
        "payload_pools": POOLS,
        "rewrites": f"every result of one application of every rule-option at every node of {len(starts)} concrete start trees "
                    "(all rule example inputs as written; small trees with three payload variants)",
        "assignment": "unbounded reals (solver variables)",
    }
    rep.functions = ["__str__ of every node class", "BinaryExpression.self_parens/get_priority", "ConstantExpression.name",
                     "Tokenizer.tokenize + ExpressionParser.parse on the printed text"]
    rep.explanation = (
        "Text needs digits, so payloads are chosen by solver-variable selectors from concrete pools (every combination "
        "explored); the printed text goes through the real tokenizer and parser and z3 must prove 'tree = re-parsed tree' for "
        "every assignment of the variables (equation roots: same truth value), the variable sets must be equal and the parse "
        "must not raise. Second source of trees: every one-step rewrite result of concrete start trees.")
    rep.assumptions = ["abs() is not registered with the tokenizer, so AbsExpression is not reachable by parsing and is excluded",
                       "one-operand nodes with the operand on the left are not produced by the parser or the rules"]
    ch = chains(3)
    if tier == "quick":
        random.Random(seed()).shuffle(ch)
        ch = ch[:4000]
    else:
        ch4 = chains(4)
        random.Random(seed()).shuffle(ch4)
        ch = ch + ch4[:60000]
    rep.bounds["chains"] = (f"{len(ch)} nested operator chains of depth 3" + (" (seeded sample of 4000)" if tier == "quick" else
                            " (all) and a seeded sample of 60000 of depth 4") + " over + - * / ^ neg sgn with leaf / compact-term operands")
    items = [("tree", s) for s in sks + eqs + ch] + [("rewrite", s) for s in starts]
    random.Random(seed()).shuffle(items)
    collect(rep, pmap(worker, items, budget_s=420 if tier == "quick" else 720, chunk=8))
    return rep.finish(required_reach=["tree", "rewrite"])
