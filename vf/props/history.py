"""C12: parser results do not depend on call history (caches, destructive token consumption).

A history is a sequence of H operations on one ExpressionParser; operation codes and text indices are
solver variables (selectors), every satisfying history is explored.  The solver only decides selector
feasibility here - the value of the method is the exhaustive history space (said in DESIGN.md).
"""
from __future__ import annotations

import itertools
import random
from typing import Any, Dict, List, Optional, Tuple

import z3

from mathy_core.parser import ExpressionParser, ParserException
from mathy_core.tokenizer import Token

from ..core import Report, Violation, collect, pmap, seed
from ..symx import Ctx, Stats, explore
from ..trees import sig

# pairs (0,1) same tokens, different spelling; (4,5) and (6,7) same characters when concatenated, different tokens
TEXTS = ["4x + 2", "4x+2", "2 +", "2 $ 3", "12", "1 2", "2.5x", "2 .5x", "s gn(x)", "sgn(x)"]
OPS = ["parse", "tokenize", "tokenize+edit", "clear_cache"]


def observe(parser: ExpressionParser, what: str, text: str) -> Tuple[str, Any]:
    try:
        if what == "parse":
            return "tree", sig(parser.parse(text))
        toks = parser.tokenize(text)
        return "tokens", [(t.type, str(t.value)) for t in toks]
    except ParserException as e:
        return "raised", type(e).__name__
    except ValueError:
        return "raised", "ValueError"
    except Exception as e:
        return "raised", f"internal {type(e).__name__}"


def apply_op(parser: ExpressionParser, op: str, text: str, edit: int) -> None:
    if op == "clear_cache":
        parser.clear_cache()
        return
    if op == "parse":
        observe(parser, "parse", text)
        return
    try:
        toks = parser.tokenize(text)
    except Exception:
        return
    if op == "tokenize+edit":
        # list-level edits of the returned list only (what a consumer of the token list does)
        if edit == 0:
            while toks:
                toks.pop(0)
        elif edit == 1:
            toks.reverse()
        else:
            toks.append(Token("junk", 1))
            del toks[: len(toks) // 2]


def run_history(hist: List[Tuple[int, int, int]], query: Tuple[int, int]) -> Optional[str]:
    used = ExpressionParser()
    for op, ti, edit in hist:
        apply_op(used, OPS[op], TEXTS[ti], edit)
    what = "parse" if query[0] == 0 else "tokenize"
    got = observe(used, what, TEXTS[query[1]])
    want = observe(ExpressionParser(), what, TEXTS[query[1]])
    if got != want:
        return (f"after {[(OPS[o], TEXTS[t]) if OPS[o] != 'clear_cache' else ('clear_cache',) for o, t, _ in hist]}: "
                f"{what}({TEXTS[query[1]]!r}) on the used parser gives {got}, on a fresh parser {want}")
    # a second request for the same text must give the same answer again (the first may have consumed a cached list)
    again = observe(used, what, TEXTS[query[1]])
    if again != want:
        return (f"after {[(OPS[o], TEXTS[t]) for o, t, _ in hist]}: the second {what}({TEXTS[query[1]]!r}) gives {again}, "
                f"a fresh parser {want}")
    return None


def worker(item: Any) -> Dict[str, Any]:
    H, first, query, focus = item[:4]
    owner = item[4] if len(item) > 4 else "C12"
    # C10 ("later parses on the same parser behave as on a fresh one"): histories of parse calls only
    op_pool = list(range(len(OPS))) if owner == "C12" else [OPS.index("parse")]
    st = Stats()
    part: Dict[str, Any] = {"stats": st, "cases": 1, "nontrivial": 0, "proved": 0, "queries": 0, "inconclusive": 0,
                            "violations": [], "samples": [], "reach": {}, "inconclusive_samples": [],
                            "engine_mismatch": 0, "mismatch_samples": [], "validated": 0}

    def h(ctx: Ctx) -> Any:
        hist: List[Tuple[int, int, int]] = []
        for i in range(H):
            if i == 0:
                op, ti = first
            else:
                op = op_pool[ctx.choose(len(op_pool), f"op{i}_")]
                ti = 0
                if OPS[op] != "clear_cache":
                    if focus:
                        # thorough tier, long histories: only texts that touch the queried cache key or its spelling twin
                        pool = sorted({query[1], query[1] ^ 1, 2})
                        ti = pool[ctx.choose(len(pool), f"t{i}_")]
                    else:
                        ti = ctx.choose(len(TEXTS), f"t{i}_")
            edit = ctx.choose(3, f"e{i}_") if OPS[op] == "tokenize+edit" else 0
            hist.append((op, ti, edit))
        return hist, run_history(hist, query)

    for r in explore(h, st, max_paths=3000000):
        if r.status != "ok":
            part["inconclusive"] += 1
            continue
        hist, problem = r.value
        part["nontrivial"] += 1
        part["queries"] += 1
        if problem is None:
            part["proved"] += 1
            if len(part["samples"]) < 1 and len(hist) == H:
                part["samples"].append({"history": [(OPS[o], TEXTS[t], e) for o, t, e in hist],
                                        "query": ("parse" if query[0] == 0 else "tokenize", TEXTS[query[1]])})
            continue
        again = run_history(hist, query)  # replay: the same calls again, on new objects
        if again:
            fault = "tokens" if query[0] == 1 else "tree"
            part["violations"].append(Violation(owner, fault, {"fault": fault}, again,
                                                {"kind": "history", "history": hist, "query": list(query), "observed": again}))
        else:
            part["engine_mismatch"] += 1
    part["reach"][f"H{H}"] = 1
    uniq = {}
    for v in part["violations"]:
        uniq.setdefault(v.site, v)
    part["violations"] = list(uniq.values())
    return part


def replay_record(rec: Dict[str, Any]) -> Tuple[bool, str]:
    msg = run_history([tuple(x) for x in rec["history"]], tuple(rec["query"]))
    return bool(msg), msg or ""


def run(tier: str) -> int:
    rep = Report("C12", tier)
    Hmax = 2 if tier == "quick" else 3  # sized to finish: H = 4 over all texts is 64000 histories per (first, query) pair
    items = []
    firsts = [(o, t) for o in range(len(OPS)) for t in range(len(TEXTS)) if OPS[o] != "clear_cache" or t == 0]
    queries = [(k, t) for k in (0, 1) for t in range(len(TEXTS))]
    for H in range(1, Hmax + 1):
        for f in firsts:
            for q in queries:
                items.append((H, f, q, False))
    for f in firsts:
        for q in queries:
            if tier == "quick" and (OPS[f[0]] == "clear_cache" or f[1] in (q[1], q[1] ^ 1, 2)):
                items.append((3, f, q, True))
    rep.bounds = {"history_length": f"<= {Hmax} operations over all texts" + (", plus length 3 restricted (after the first operation) "
                                    "to the queried text, its spelling twin and one failing text" if tier == "quick" else ""),
                  "operations": OPS, "texts": TEXTS,
                  "edits": "pop everything / reverse / append junk and delete half - list-level edits of returned token lists only",
                  "query": "parse or tokenize of any pool text, asked twice"}
    rep.functions = ["ExpressionParser.parse/tokenize/clear_cache/_parse", "Tokenizer.tokenize"]
    rep.explanation = (
        "Every history of <= H operations (operation code, text index, edit kind as solver-variable selectors, all values "
        "explored) followed by a query asked twice; the answer (tree signature with payloads, token (type, value) list, or "
        "exception class) must equal a fresh parser's. Mutating returned trees or Token objects is not exercised (not part "
        "of the property). The solver's role is selector feasibility only.")
    rep.assumptions = ["texts are drawn from a fixed pool of 10 (valid, two spellings of one expression, invalid at parser / "
                       "tokenizer level, pairs of texts that differ only in where token boundaries fall)"]
    random.Random(seed()).shuffle(items)
    items.sort(key=lambda it: it[0])  # short histories first: under a budget cut the long ones are what is skipped
    collect(rep, pmap(worker, items, budget_s=400 if tier == "quick" else 900, chunk=4))
    return rep.finish(required_reach=[f"H{h}" for h in range(1, 4)])
