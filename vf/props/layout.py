"""C18: tidy-tree layout invariants and repeatability.

Shape bits are solver variables (all shapes up to the depth bound explored), the unit multipliers are
positive real solver variables: every assertion on coordinates is a z3 validity query over all ux, uy.
"""
from __future__ import annotations

import random
from fractions import Fraction
from typing import Any, Dict, List, Optional, Tuple

import z3

from mathy_core.layout import TreeLayout
from mathy_core.tree import BinaryTreeNode

from ..core import Report, Violation, collect, isolated_replay, out_of_time, pmap, seed
from ..symx import Ctx, EngineSignal, Stats, SymNum, Unsupported, RV, explore, frac_of
from .treeprops import Shape, build_math, build_plain, enum_shapes

Problem = Tuple[str, str]


def term(v: Any) -> Any:
    if type(v) in (int, float) and v == v and v not in (float("inf"), float("-inf")):
        return Fraction(v)  # concrete replay / sampled shapes: plain exact numbers, no solver terms
    l = SymNum.lift(v)
    if l is None:
        raise Unsupported(f"coordinate of type {type(v).__name__}")
    return l[0]


def AND(*xs: Any) -> Any:
    xs = tuple(x for a in xs for x in (a if isinstance(a, (list, tuple)) else (a,)))
    if all(isinstance(x, bool) for x in xs):
        return all(xs)
    return z3.And([x if not isinstance(x, bool) else z3.BoolVal(x) for x in xs])


def OR(*xs: Any) -> Any:
    xs = tuple(x for a in xs for x in (a if isinstance(a, (list, tuple)) else (a,)))
    if all(isinstance(x, bool) for x in xs):
        return any(xs)
    return z3.Or([x if not isinstance(x, bool) else z3.BoolVal(x) for x in xs])


def depth_of(i: int) -> int:
    return i.bit_length() - 1


def mirror(shape: Shape) -> Shape:
    def m(i: int) -> int:
        d = depth_of(i)
        return (1 << d) + ((1 << d) - 1 - (i - (1 << d)))

    return tuple(sorted(m(i) for i in shape))


def mirror_index(i: int) -> int:
    d = depth_of(i)
    return (1 << d) + ((1 << d) - 1 - (i - (1 << d)))


def inorder_rank(shape: Shape) -> Dict[int, int]:
    s = set(shape)
    out: Dict[int, int] = {}

    def rec(i: int) -> None:
        if i not in s:
            return
        rec(2 * i)
        out[i] = len(out)
        rec(2 * i + 1)

    rec(1)
    return out


def layout_check(shape: Shape, flavour: str, ctx: Optional[Ctx], ux: Any, uy: Any, repeats: int, light: bool = False) -> List[Problem]:
    """All invariants for one shape.  ux/uy: SymNum (symbolic) or numbers (replay)."""
    problems: List[Problem] = []

    def holds(cond: Any) -> bool:
        if isinstance(cond, bool):
            return cond
        if ctx is None:
            return bool(z3.is_true(z3.simplify(cond))) if not isinstance(cond, bool) else cond
        r, _ = ctx.valid(cond)
        return r != "cex"

    nodes = build_plain(shape) if flavour == "plain" else build_math(shape)
    try:
        # history: an unrelated, larger tree was laid out earlier in the same process (bounds and coordinates of the
        # tree under test must not depend on it)
        if not light:
            TreeLayout().layout(build_plain((1, 2, 3, 4, 5, 6, 7, 8, 15))[1], 3.0, 2.0)
        m = TreeLayout().layout(nodes[1], ux, uy)
    except Exception as e:
        return [("layout-raised", f"layout raised {type(e).__name__}: {str(e)[:80]}")]
    uxz, uyz = term(ux), term(uy)
    try:
        X = {i: term(nodes[i].x) for i in shape}
        Y = {i: term(nodes[i].y) for i in shape}
    except Unsupported as e:
        return [("no-coordinates", str(e))]
    s = set(shape)
    for i in shape:
        if not holds(Y[i] == depth_of(i) * uyz):
            problems.append(("y-depth", f"node {i}: y is not depth * unit"))
        l, r = 2 * i, 2 * i + 1
        if l in s and not holds(X[l] < X[i]):
            problems.append(("child-side", f"left child {l} is not strictly left of its parent {i}"))
        if r in s and not holds(X[r] > X[i]):
            problems.append(("child-side", f"right child {r} is not strictly right of its parent {i}"))
        if l in s and r in s and not holds(2 * X[i] == X[l] + X[r]):
            problems.append(("centering", f"parent {i} is not centred over its two children"))
    rank = inorder_rank(shape)
    levels: Dict[int, List[int]] = {}
    for i in shape:
        levels.setdefault(depth_of(i), []).append(i)
    for d, members in levels.items():
        members.sort()  # heap order on one level = left-to-right order
        for a, b in zip(members, members[1:]):
            if not holds(X[b] - X[a] >= uxz):
                problems.append(("separation", f"level {d}: nodes {a} and {b} are out of order or closer than one unit"))
    # bounds = true bounding box
    try:
        for name, coords, pick in (("minX", X, "min"), ("maxX", X, "max"), ("minY", Y, "min"), ("maxY", Y, "max")):
            got = term(getattr(m, name))
            vals = list(coords.values())
            is_bound = AND([got <= v if pick == "min" else got >= v for v in vals])
            attained = OR([got == v for v in vals])
            if not holds(AND(is_bound, attained)):
                problems.append(("bounds", f"{name} is not the true {pick}imum of the assigned coordinates"))
        if not holds(AND(term(m.width) == term(m.maxX) - term(m.minX), term(m.height) == term(m.maxY) - term(m.minY))):
            problems.append(("bounds", "width/height differ from max - min"))
    except Unsupported as e:
        problems.append(("bounds", str(e)))
    # repeatability on the same node objects
    for k in range(repeats):
        try:
            TreeLayout().layout(nodes[1], ux, uy)
            X2 = {i: term(nodes[i].x) for i in shape}
            Y2 = {i: term(nodes[i].y) for i in shape}
        except Exception as e:
            problems.append(("repeat", f"layout #{k + 2} of the same nodes raised {type(e).__name__}"))
            break
        bad = [i for i in shape if not holds(AND(X2[i] == X[i], Y2[i] == Y[i]))]
        if bad:
            problems.append(("repeat", f"layout #{k + 2} of the same nodes moved nodes {bad}"))
            break
    # a proper subtree laid out on its own first, then the whole tree: same coordinates as a fresh layout
    inner = [i for i in shape if i > 1 and (2 * i in s or 2 * i + 1 in s)]
    for sub in ([] if light else inner[:1] + inner[-1:]):
        hn = build_plain(shape) if flavour == "plain" else build_math(shape)
        try:
            TreeLayout().layout(hn[sub], ux, uy)
            TreeLayout().layout(hn[1], ux, uy)
            bad = [i for i in shape if not holds(AND(term(hn[i].x) == X[i], term(hn[i].y) == Y[i]))]
            if bad:
                problems.append(("repeat", f"laying out the subtree at node {sub} first and then the whole tree moves nodes {bad}"))
                break
        except Exception as e:
            problems.append(("repeat", f"layout after a sub-layout raised {type(e).__name__}"))
            break
    # mirrored tree -> mirrored coordinates
    ms = mirror(shape)
    mnodes = build_plain(ms) if flavour == "plain" else build_math(ms)
    try:
        TreeLayout().layout(mnodes[1], ux, uy)
        bad = [i for i in shape if not holds(AND(term(mnodes[mirror_index(i)].x) == -X[i], term(mnodes[mirror_index(i)].y) == Y[i]))]
        if bad:
            problems.append(("mirror", f"the mirrored tree is not laid out as the mirror image (nodes {bad})"))
    except Exception as e:
        problems.append(("mirror", f"layout of the mirrored tree raised {type(e).__name__}"))
    # de-duplicate labels, keep first message of each
    seen = set()
    out = []
    for p in problems:
        if p[0] not in seen:
            seen.add(p[0])
            out.append(p)
    return out


def insertion_shape(rnd: random.Random, n: int) -> Shape:
    """A random binary tree with n nodes grown by random insertion walks (the shape distribution of random search trees:
    long one-child chains next to bushy parts, which is where contour threading matters)."""
    s = {1}
    while len(s) < n:
        i = 1
        while True:
            c = 2 * i + rnd.randint(0, 1)
            if c in s:
                i = c
            else:
                s.add(c)
                break
    return tuple(sorted(s))


BATCH = 1000


def batch_worker(batch_seed: int) -> Dict[str, Any]:
    """BATCH sampled shapes with 14..30 nodes, fixed multipliers, no solver."""
    rnd = random.Random(batch_seed)
    total: Optional[Dict[str, Any]] = None
    for _ in range(BATCH):
        part = sample_worker(insertion_shape(rnd, rnd.randint(14, 30)))
        if total is None:
            total = part
        else:
            total["stats"].paths += 1
            total["cases"] += 1
            total["nontrivial"] += 1
            total["queries"] += 1
            total["proved"] += part["proved"]
            total["violations"].extend(part["violations"][:1] if len(total["violations"]) < 5 else [])
    assert total is not None
    return total


def worker(item: Tuple[Any, str]) -> Dict[str, Any]:
    shape, flavour = item
    if flavour == "sample":
        return sample_worker(shape)
    if flavour == "batch":
        return batch_worker(shape)
    st = Stats()
    part: Dict[str, Any] = {"stats": st, "cases": 1, "nontrivial": 1, "proved": 0, "queries": 0, "inconclusive": 0,
                            "violations": [], "samples": [], "reach": {}, "inconclusive_samples": [],
                            "engine_mismatch": 0, "mismatch_samples": [], "validated": 0}

    def h(ctx: Ctx) -> Any:
        ux = SymNum(z3.Real("ux"), False)
        uy = SymNum(z3.Real("uy"), False)
        ctx.add(z3.And(ux.z > 0, uy.z > 0))
        return layout_check(shape, flavour, ctx, ux, uy, repeats=2)

    for r in explore(h, st, max_paths=2000):
        if r.status != "ok":
            part["inconclusive"] += 1
            part["inconclusive_samples"].append(f"{shape} {flavour}: {r.status} {r.detail}")
            continue
        part["queries"] += 1
        if not r.value:
            part["proved"] += 1
            continue
        hits: List[Problem] = []
        for uxv, uyv in ((1.0, 1.0), (2.5, 0.5)):
            try:
                again = layout_check(shape, flavour, None, uxv, uyv, repeats=2)
            except EngineSignal:
                # the code under test kept state from the symbolic run (a proxy survived in a shared object):
                # replay in a fresh interpreter
                ok, msg = isolated_replay("C18", {"kind": "layout", "shape": list(shape), "flavour": flavour, "ux": uxv, "uy": uyv})
                again = [(r.value[0][0], msg)] if ok else []
            labels = {p[0] for p in r.value}
            hits = [p for p in again if p[0] in labels]
            if hits:
                break
        if not hits:
            part["engine_mismatch"] += 1
            part["mismatch_samples"].append(f"{shape}: {r.value[0]}")
            continue
        for lab, msg in hits:
            part["violations"].append(Violation("C18", lab, {"fault": lab, "shape": shape_text(shape), "flavour": flavour},
                                                f"shape {shape_text(shape)}: {msg}",
                                                {"kind": "layout", "shape": list(shape), "flavour": flavour, "ux": uxv, "uy": uyv,
                                                 "observed": msg}))
    part["samples"].append({"shape": list(shape), "flavour": flavour})
    part["reach"][flavour] = 1
    uniq = {}
    for v in part["violations"]:
        uniq.setdefault(v.ident(), v)
    part["violations"] = list(uniq.values())
    return part


def sample_worker(shape: Shape) -> Dict[str, Any]:
    """Large sampled shapes: fixed multipliers, no solver (the solver-quantified multipliers are exercised on the
    enumerated families); finds shape-dependent contour faults that need 14+ nodes."""
    st = Stats()
    st.paths = 1
    part: Dict[str, Any] = {"stats": st, "cases": 1, "nontrivial": 1, "proved": 0, "queries": 1, "inconclusive": 0,
                            "violations": [], "samples": [], "reach": {"sample": 1}, "inconclusive_samples": [],
                            "engine_mismatch": 0, "mismatch_samples": [], "validated": 0}
    probs: List[Problem] = []
    used = (1.0, 1.0)
    for uxv, uyv in ((1.0, 1.0), (2.5, 0.5)):
        probs = layout_check(shape, "plain", None, uxv, uyv, repeats=0, light=True)
        used = (uxv, uyv)
        if probs:
            break
    if not probs:
        part["proved"] = 1
        return part
    for lab, msg in probs:
        part["violations"].append(Violation("C18", lab, {"fault": lab, "shape": shape_text(shape), "flavour": "plain"},
                                            f"shape {shape_text(shape)}: {msg}",
                                            {"kind": "layout", "shape": list(shape), "flavour": "plain", "ux": used[0], "uy": used[1],
                                             "observed": msg}))
    return part


def shape_text(shape: Shape) -> str:
    """Nested text of a shape: (L R) with . for an absent child."""
    s = set(shape)

    def rec(i: int) -> str:
        if i not in s:
            return "."
        if 2 * i not in s and 2 * i + 1 not in s:
            return "o"
        return f"({rec(2 * i)} {rec(2 * i + 1)})"

    return rec(1)


def replay_record(rec: Dict[str, Any]) -> Tuple[bool, str]:
    probs = layout_check(tuple(rec["shape"]), rec["flavour"], None, rec["ux"], rec["uy"], repeats=2)
    return bool(probs), "; ".join(p[1] for p in probs)


def deep_sample(n: int, rnd: random.Random, max_levels: int = 7) -> List[Shape]:
    """A seeded sample of larger shapes (9..22 nodes, up to `max_levels` levels): beyond what can be enumerated, but where
    contour threading between subtrees of different depth gets exercised (a residual fault needed 14 nodes / 6 levels)."""
    out = set()
    tries = 0
    while len(out) < n and tries < n * 20:
        tries += 1
        target = rnd.randint(9, 22)
        s = {1}
        frontier = [1]
        while frontier and len(s) < target:
            i = frontier.pop(rnd.randrange(len(frontier)))
            for c in (2 * i, 2 * i + 1):
                if c < 2 ** max_levels and rnd.random() < 0.62 and len(s) < target:
                    s.add(c)
                    frontier.append(c)
        if len(s) >= 9:
            out.add(tuple(sorted(s)))
    return sorted(out)


def run(tier: str) -> int:
    rep = Report("C18", tier)
    depth = 4
    st = Stats()
    shapes = enum_shapes(depth, st)
    extra: List[Shape] = []
    if tier != "quick":
        extra = [s for s in enum_shapes(5, st, max_nodes=9) if max(s) >= 16]
    rep.stats.merge(st)
    rep.bounds = {"depth": depth, "shapes": len(shapes), "extra": f"{len(extra)} five-level shapes with <= 9 nodes",
                  "unit_multipliers": "ux, uy: all positive reals (solver variables)", "repeated_layouts": 3,
                  "history": "a larger unrelated tree is laid out (scale 3 x 2) before every tree under test",
                  "node_flavours": ["BinaryTreeNode"] + (["MathExpression subclasses"] if tier != "quick" else [])}
    rep.functions = ["TreeLayout.layout/measure/transform", "TreeMeasurement", "TidierExtreme"]
    rep.explanation = (
        "Every binary tree shape up to the depth bound (existence bits are solver variables). measure() runs on concrete "
        "offsets; the unit multipliers are positive real solver variables, so transform()'s comparisons fork through z3 and "
        "every assertion is a validity query over all ux, uy: y = depth*uy, children strictly on their side, parent centred "
        "over two children, same-level nodes in order and >= ux apart, returned bounds = true bounding box, second and third "
        "layout of the same nodes give the same coordinates, the mirrored shape gives mirrored coordinates.")
    rep.assumptions = ["shapes deeper than the bound are outside the claim"]
    rnd = random.Random(seed() + 18)
    deep = deep_sample(600 if tier == "quick" else 5000, rnd)
    nbatch = 64 if tier == "quick" else 640
    rep.bounds["deep_sample"] = (f"{len(deep)} seeded random shapes with 9..22 nodes and up to 7 levels with symbolic multipliers, and "
                                 f"{nbatch * BATCH} random-insertion shapes with 14..30 nodes with the multipliers fixed at (1, 1) / (2.5, 0.5) "
                                 "and no solver (sampled, not exhaustive: contour faults were seen to need 14+ nodes and to hit about one "
                                 "shape in 5000)")
    items = [(s, "plain") for s in shapes + extra + deep] + [(seed() * 100003 + 7919 * b, "batch") for b in range(nbatch)]
    if tier != "quick":
        items += [(s, "math") for s in shapes]
    random.Random(seed()).shuffle(items)
    collect(rep, pmap(worker, items, budget_s=400 if tier == "quick" else 720, chunk=8))
    return rep.finish(required_reach=["plain", "sample"])
