"""C01 (value preservation) and C02 (solution-set preservation) of single rule applications.

Per (skeleton, node, rule-option): the real rule code runs on a real tree whose constant payloads
are solver variables; on every feasible path where the rule reports applicable and applies, z3 is
asked for payloads + an assignment of the variables where before and after differ.
"""
from __future__ import annotations

import random
from fractions import Fraction
from typing import Any, Dict, List, Optional, Tuple

import z3

from .. import shims
from ..core import Report, Violation, collect, out_of_time, pmap, seed
from ..rulekit import (
    RULES,
    RULE_BY_NAME,
    CONTEXTS,
    assignment_from_model,
    family_B,
    family_B_subst,
    localize,
    nice_query,
    num_json,
    rule_type_label,
    skel_json,
)
from ..symx import Ctx, Stats, Unsupported, explore, frac_of
from ..trees import (
    ConcreteProvider,
    OpaqueProvider,
    SymProvider,
    build,
    enum_upto,
    grid_text,
    use_grid,
    kind,
    model_payloads,
    preorder,
    renumber,
    root_of,
    shape,
    sk_size,
    sk_str,
    slot_roles,
    variables_of,
)
from ..zeval import Undefined, ceval, close, mentions_variable, powr_axioms, uses_uf, var, zeval_top

ENVS = [
    {"x": Fraction(2), "y": Fraction(3), "z": Fraction(5), "w": Fraction(7)},
    {"x": Fraction(-3, 2), "y": Fraction(7, 3), "z": Fraction(-2), "w": Fraction(1, 5)},
    {"x": Fraction(1, 2), "y": Fraction(-5), "z": Fraction(11, 4), "w": Fraction(-9)},
]
COEF_POOL = [0, 1, 2, 3, -1, -2, 0.5, 4, 6, -0.5, 12, 0.00003, 40000]
EXP_POOL = [0, 1, 2, 3, -1, -2]
FACT_POOL = [0, 1, 3]


def safe_str(t: Any) -> str:
    try:
        return str(t)
    except Exception as e:
        return f"<unprintable: {type(e).__name__}>"


def div_divisors(root: Any, ctx: Optional[Ctx]) -> List[Any]:
    from ..zeval import zeval

    out = []
    for n in preorder(root):
        if kind(n) == "div" and n.right is not None:
            try:
                t = z3.simplify(zeval(n.right, [], ctx))
            except (Undefined, Unsupported):
                continue
            out.append(t)
    return out


# ------------------------------------------------------------------------------------------------
# concrete replay (no shims, real numpy): the only place a violation is ever confirmed
# ------------------------------------------------------------------------------------------------


def truth(l: Any, r: Any) -> Optional[bool]:
    if l is None or r is None:
        return None
    return close(l, r)


def replay_value(sk: Any, payloads: Dict[int, Any], idx: int, rule_label: str, env: Dict[str, Any], prop: str):
    """-> (reproduced, Violation-or-None, detail)"""
    root = build(sk, ConcreteProvider(payloads))
    nodes = preorder(root)
    node = nodes[idx]
    rule = RULE_BY_NAME[rule_label]()
    try:
        if not rule.can_apply_to(node):
            return False, None, "not applicable on the concrete tree"
    except Exception as e:
        return False, None, f"can_apply_to raised {type(e).__name__}"
    keys = {
        "rule": rule_label,
        "type": rule_type_label(rule, node),
        "node": shape(node),
        "parent": kind(node.parent) if node.parent is not None else "-",
    }
    text_b = safe_str(root)
    is_eq = kind(root) == "eq"
    try:
        if is_eq:
            lb, rb = ceval(root.left, env), ceval(root.right, env)
        else:
            vb = ceval(root, env)
    except Unsupported as e:
        return False, None, str(e)
    try:
        change = rule.apply_to(node)
        new_root = root_of(change.result)
    except Exception as e:
        return False, None, f"apply_to raised {type(e).__name__}: {e}"
    text_a = safe_str(new_root)
    envj = {k: num_json(v) for k, v in env.items() if k in variables_of(new_root) or k in text_b}
    base = {
        "kind": "rule_step",
        "skeleton": skel_json(sk),
        "payloads": {str(k): v for k, v in payloads.items()},
        "node_index": idx,
        "rule": rule_label,
        "assignment": envj,
        "before": text_b,
        "after": text_a,
    }
    site = f"{rule_label}:{keys['type']}"
    if is_eq:
        if kind(new_root) != "eq":
            what = f"{rule_label} turned the equation '{text_b}' into the non-equation '{text_a}'"
            keys["fault"] = "not-an-equation"
            return True, Violation(prop, site, keys, what, dict(base, observed="result is not an equation")), what
        # the original is defined at this assignment, the result divides by a variable-free zero
        if lb is not None and rb is not None:
            for n in preorder(new_root):
                if kind(n) == "div" and not variables_of(n.right):
                    try:
                        d = ceval(n.right, env)
                    except Unsupported:
                        continue
                    if d is not None and d == 0:
                        what = f"{rule_label} on '{text_b}' divides by zero: '{text_a}'"
                        keys["fault"] = "divide-by-zero"
                        return True, Violation(prop, site, keys, what, dict(base, observed="division by zero introduced")), what
        try:
            la, ra = ceval(new_root.left, env), ceval(new_root.right, env)
        except Unsupported as e:
            return False, None, str(e)
        tb, ta = truth(lb, rb), truth(la, ra)
        if tb is None or ta is None or tb == ta:
            return False, None, f"equations agree at the model assignment ({tb}, {ta})"
        what = (f"{rule_label} at node {keys['node']}: '{text_b}' -> '{text_a}' changes the solution set: at {envj} "
                f"before {'holds' if tb else 'fails'} ({lb} vs {rb}), after {'holds' if ta else 'fails'} ({la} vs {ra})")
        keys["fault"] = "solution-set"
        return True, Violation(prop, site, keys, what, dict(base, observed=what)), what
    if kind(new_root) == "eq":
        return False, None, "expression became an equation"
    try:
        va = ceval(new_root, env)
    except Unsupported as e:
        return False, None, str(e)
    if vb is None or va is None or close(vb, va):
        return False, None, f"values agree at the model assignment ({vb}, {va})"
    what = (f"{rule_label} at node {keys['node']}: '{text_b}' -> '{text_a}' changes the value: at {envj} "
            f"before={float(vb)} after={float(va)}")
    keys["fault"] = "value"
    return True, Violation(prop, site, keys, what, dict(base, observed=what)), what


def replay_record(rec: Dict[str, Any]) -> Tuple[bool, str]:
    from ..rulekit import num_unjson, skel_unjson

    if rec.get("kind") == "sequence":
        from . import sequences

        return sequences.replay_record(rec)

    env = {k: (Fraction(v["frac"][0], v["frac"][1]) if isinstance(v, dict) else Fraction(v)) for k, v in rec["assignment"].items()}
    for name in "xyzw":
        env.setdefault(name, Fraction(1))
    pay = {int(k): v for k, v in rec["payloads"].items()}
    ok, v, detail = replay_value(skel_unjson(rec["skeleton"]), pay, rec["node_index"], rec["rule"], env, rec.get("property") or "C01")
    return ok, detail


def concrete_fallback(sk: Any, idx: int, rule_label: str, prop: str, rng: random.Random, limit: int = 300):
    """Stage 3: real code on concrete payloads from a fixed pool, exact arithmetic, 3 assignments."""
    roles = slot_roles(sk)
    slots = sorted(roles)
    pools = {"coef": COEF_POOL, "exp": EXP_POOL, "fact": FACT_POOL}
    combos = []
    total = 1
    for s in slots:
        total *= len(pools[roles[s]])
    if total <= limit:
        import itertools

        combos = [dict(zip(slots, c)) for c in itertools.product(*[pools[roles[s]] for s in slots])]
    else:
        for _ in range(limit):
            combos.append({s: rng.choice(pools[roles[s]]) for s in slots})
    tried = 0
    for pay in combos:
        for env in ENVS:
            tried += 1
            try:
                ok, v, _ = replay_value(sk, pay, idx, rule_label, env, prop)
            except Exception:
                continue
            if ok:
                return v, tried
    return None, tried


# ------------------------------------------------------------------------------------------------
# symbolic harness
# ------------------------------------------------------------------------------------------------


def make_harness(sk: Any, idx: int, rule_label: str, mode: str, prop: str):
    roles = slot_roles(sk)
    factory = RULE_BY_NAME[rule_label]

    def h(ctx: Ctx) -> Dict[str, Any]:
        prov = SymProvider(ctx, mode)
        root = build(sk, prov, roles)
        node = preorder(root)[idx]
        rule = factory()
        with shims.installed():
            try:
                ok = bool(rule.can_apply_to(node))
            except Exception as e:
                return {"k": "can_raised", "e": type(e).__name__}
            if not ok:
                return {"k": "na"}
            try:
                before = zeval_top(root, ctx)
                divs_before = div_divisors(root, ctx) if before[0] == "eq" else []
            except Undefined:
                return {"k": "undef"}
            try:
                change = rule.apply_to(node)
                new_root = root_of(change.result)
            except Exception as e:
                return {"k": "apply_raised", "e": type(e).__name__}
            try:
                after = zeval_top(new_root, ctx)
            except Undefined:
                return {"k": "undef"}
        AXS: List[Any] = []
        names = sorted(set(variables_of(new_root)) | set(v for v in _sk_vars(sk)))
        syms = list(prov.z.values()) + [var(n) for n in names]
        queries: List[Tuple[str, List[Any]]] = []
        if before[0] == "eq":
            if after[0] != "eq":
                queries.append(("shape", []))
            else:
                dom = before[3] + after[3]
                AXS.extend(powr_axioms(before[1], before[2], after[1], after[2]))
                queries.append(("solset", dom + [z3.Xor(before[1] == before[2], after[1] == after[2])]))
                # "never divides by zero": a divisor of the result that does not depend on the variables
                # must not be zero for payloads at which the original equation is defined
                old = {t.get_id() for t in divs_before}
                for t in div_divisors(new_root, ctx):
                    if t.get_id() not in old and not mentions_variable(t):
                        queries.append(("divzero", before[3] + [t == 0]))
        else:
            if after[0] == "eq":
                return {"k": "undef"}
            dom = before[3] + after[3]
            AXS.extend(powr_axioms(before[1], after[1]))
            la, lb = localize(before[1], after[1])
            if la.get_id() != before[1].get_id():
                # same context around the rewritten part: equal parts => equal wholes (the converse is
                # not needed: a 'sat' here is re-asked on the whole expressions below)
                r0, _ = ctx.query_lazy(dom + [la != lb], AXS)
                if r0 == "unsat":
                    return {"k": "checked", "proved": 1, "asked": 1, "cex": [], "unknown": 0}
            queries.append(("value", dom + [before[1] != after[1]]))
        out: Dict[str, Any] = {"k": "checked", "proved": 0, "asked": 0, "cex": [], "unknown": 0}
        uf = uses_uf(before[1]) or uses_uf(after[1]) or (before[0] == "eq" and (uses_uf(before[2]) or uses_uf(after[2])))
        for label, conds in queries:
            out["asked"] += 1
            r, m = nice_query(ctx, conds, syms, AXS) if conds else ("sat", ctx.ensure_model())
            if r == "unsat":
                out["proved"] += 1
            elif r == "unknown":
                out["unknown"] += 1
            else:
                try:
                    pay = model_payloads(m, prov)
                except Unsupported:
                    out["unknown"] += 1
                    continue
                env = assignment_from_model(m, names)
                out["cex"].append({"label": label, "payloads": pay, "env": env, "uf": uf})
        return out

    return h


def _sk_vars(sk: Any) -> List[str]:
    if sk[0] == "var":
        return [sk[1]]
    if sk[0] == "const":
        return []
    out: List[str] = []
    for c in sk[1:]:
        out.extend(_sk_vars(c))
    return out


def payload_independent_na(sk: Any, idx: int, rule_label: str) -> bool:
    """True when can_apply_to answers False without ever inspecting a payload (so for all payloads)."""
    try:
        root = build(sk, OpaqueProvider())
        node = preorder(root)[idx]
        return RULE_BY_NAME[rule_label]().can_apply_to(node) is False
    except BaseException:
        return False


def run_triple(sk: Any, idx: int, rule_label: str, prop: str, part: Dict[str, Any], rng: random.Random) -> None:
    st: Stats = part["stats"]
    if payload_independent_na(sk, idx, rule_label):
        st.paths += 1
        part["prefiltered"] = part.get("prefiltered", 0) + 1
        return
    mode = "real"
    results = explore(make_harness(sk, idx, rule_label, mode, prop), st, max_paths=4000)
    if any(r.status == "needs_bound" for r in results):
        mode = "grid"
        results = explore(make_harness(sk, idx, rule_label, mode, prop), st, max_paths=6000)
    need_fallback = False
    applicable = False
    for r in results:
        if r.status != "ok":
            need_fallback = True
            part["inconclusive"] += 1
            if len(part["inconclusive_samples"]) < 3:
                part["inconclusive_samples"].append(f"{rule_label}@{idx} {sk_str(sk)}: {r.status} {r.detail}")
            continue
        o = r.value
        if o["k"] == "na":
            continue
        applicable = True
        part["reach"][rule_label] = part["reach"].get(rule_label, 0) + 1
        if o["k"] != "checked":
            continue
        part["queries"] += o["asked"]
        part["proved"] += o["proved"]
        if o["unknown"]:
            part["inconclusive"] += o["unknown"]
            need_fallback = True
            if len(part["inconclusive_samples"]) < 3:
                part["inconclusive_samples"].append(f"{rule_label}@{idx} {sk_str(sk)}: solver unknown")
        for cex in o["cex"]:
            ok, v, detail = replay_value(sk, cex["payloads"], idx, rule_label, cex["env"], prop)
            if ok:
                part["violations"].append(v)
            elif cex["uf"]:
                part["inconclusive"] += 1
                need_fallback = True
                if len(part["inconclusive_samples"]) < 3:
                    part["inconclusive_samples"].append(
                        f"{rule_label}@{idx} {sk_str(sk, cex['payloads'])}: model leans on uninterpreted power ({detail})")
            else:
                need_fallback = True
                part["_mismatch"].append(f"{rule_label}@{idx} {sk_str(sk, cex['payloads'])} env={cex['env']}: {detail}")
    if applicable:
        part["nontrivial"] += 1
        if len(part["samples"]) < 2:
            part["samples"].append({"skeleton": sk_str(sk), "node": idx, "rule": rule_label, "mode": mode,
                                    "paths": len(results)})
    if need_fallback:
        v, tried = concrete_fallback(sk, idx, rule_label, prop, rng)
        part["fallback_concrete"] += 1
        if v is not None:
            part["violations"].append(v)
            part["_mismatch"] = []
    if part["_mismatch"]:
        part["engine_mismatch"] += len(part["_mismatch"])
        part["mismatch_samples"].extend(part["_mismatch"][:2])
    part["_mismatch"] = []


def new_part() -> Dict[str, Any]:
    return {"stats": Stats(), "cases": 0, "nontrivial": 0, "proved": 0, "queries": 0, "inconclusive": 0,
            "inconclusive_samples": [], "fallback_concrete": 0, "engine_mismatch": 0, "mismatch_samples": [],
            "validated": 0, "samples": [], "violations": [], "reach": {}, "_mismatch": []}


def case_worker(item: Tuple[str, Any, str]) -> Dict[str, Any]:
    prop, sk, rule_label = item
    part = new_part()
    rng = random.Random(seed() * 7919 + hash(sk_str(sk)) % 100003)
    n = sk_size(sk)
    for idx in range(n):
        if out_of_time():
            part["skipped"] = part.get("skipped", 0) + 1
            continue
        part["cases"] += 1
        run_triple(sk, idx, rule_label, prop, part, rng)
    # dedupe violations inside the case
    uniq = {}
    for v in part["violations"]:
        uniq.setdefault(v.ident(), v)
    part["violations"] = list(uniq.values())
    return part


FUNCTIONS = [
    "mathy_core.rules.*.can_apply_to/apply_to/get_type (all nine rules, all boolean options)",
    "mathy_core.rule.BaseRule.apply_to, ExpressionChangeRule.save_parent/done",
    "mathy_core.util.get_term_ex, factor_add_terms_ex, factor, make_term, unlink",
    "mathy_core.tree.BinaryTreeNode.rotate/set_left/set_right/set_side/get_side/get_sibling/get_root/get_root_side",
    "mathy_core.expressions.*.__init__/clone/clone_from_root/evaluate/operate (as called by the rules)",
]


def am_chains(max_leaves: int, leaves: List[Any]) -> List[Any]:
    """Every binary tree over {add, mul} with 3..max_leaves leaves drawn from `leaves`: the chained / regrouped forms
    that the rules special-case (and that the all-trees family cannot reach within its node bound)."""
    memo: Dict[int, List[Any]] = {1: list(leaves)}

    def trees(n: int) -> List[Any]:
        if n in memo:
            return memo[n]
        out = []
        for k in range(1, n):
            for l in trees(k):
                for r in trees(n - k):
                    out.append(("add", l, r))
                    out.append(("mul", l, r))
        memo[n] = out
        return out

    res: List[Any] = []
    for n in range(3, max_leaves + 1):
        res.extend(trees(n))
    return [renumber(t) for t in res]


AM_ONLY: set = set()  # quick tier: AM-chain skeletons are not run through the (grid-enumerating) factor-out rule


def skeletons(prop: str, tier: str) -> Tuple[List[Any], Dict[str, Any]]:
    eq = prop == "C02"
    bounds: Dict[str, Any] = {}
    sks: List[Any] = []
    if not eq:
        nA = 5 if tier == "quick" else 6
        sks.extend(enum_upto(nA))
        bounds["family_A"] = f"every tree with <= {nA} nodes over const/x/y, neg, + - * / ^"
        maxB = 15 if tier == "quick" else 40
        base = [sk for _, sk, _ in family_B(maxB) if sk[0] != "eq"]
        sks.extend(base)
        bounds["family_B"] = (f"{len(base)} non-equation example inputs of rules/*.test.json with <= {maxB} nodes, "
                              "literals made symbolic")
        kx = ("mul", ("const", 0), ("var", "x"))
        if tier == "quick":
            am = am_chains(3, [("const", 0), ("var", "x"), ("var", "y"), kx]) + \
                [t for t in am_chains(4, [("const", 0), kx]) if sk_size(t) > 9]
        else:
            # sized to finish inside the thorough budget: all five leaf kinds for 3 leaves; x / k*x and const / k*x for 4 leaves
            am = am_chains(3, [("const", 0), ("var", "x"), ("var", "y"), kx, ("pow", ("var", "x"), ("const", 0))]) + \
                [t for t in am_chains(4, [("var", "x"), kx]) + am_chains(4, [("const", 0), kx]) if sk_size(t) > 5]
        sks.extend(am)
        if tier == "quick":
            AM_ONLY.update(am)
        bounds["family_AM"] = (f"{len(am)} trees over + and * with 3-4 leaves from const / x / y / k*x (/ x^n): chained and regrouped "
                               "forms" + (" (4-leaf trees over const / k*x only; all rule-options except factor-out)" if tier == "quick" else ""))
        if tier != "quick":
            sub = [t for t in family_B_subst([b for b in base if sk_size(b) <= 13]) if sk_size(t) <= 12]  # measured: larger ones cost ~1 s each
            sks.extend(sub)
            bounds["family_B_subst"] = f"{len(sub)} one-position substitutions by a 14-element subtree library"
            ctxs = []
            for t in enum_upto(4):
                for cfun in CONTEXTS:
                    ctxs.append(renumber(cfun(t)))
            sks.extend(ctxs)
            bounds["family_C"] = f"{len(ctxs)} embeddings of <=4-node trees in 11 one-level contexts"
    else:
        nS = 3 if tier == "quick" else 4
        sides = list(enum_upto(nS))
        for l in sides:
            for r in sides:
                if sk_size(l) + sk_size(r) <= (5 if tier == "quick" else 6):
                    sks.append(renumber(("eq", l, r)))
        bounds["family_A"] = f"L = R with sides <= {nS} nodes, total <= {6 if tier == 'quick' else 7} nodes"
        base = [sk for _, sk, _ in family_B()]
        eqs = [sk for sk in base if sk[0] == "eq"]
        sks.extend(eqs)
        wrapped = [renumber(("eq", sk, ("var", "w"))) for sk in base if sk[0] != "eq" and sk_size(sk) <= 9]
        wrapped += [renumber(("eq", ("var", "w"), sk)) for sk in base if sk[0] != "eq" and sk_size(sk) <= 5]
        sks.extend(wrapped)
        bounds["family_B"] = f"{len(eqs)} equation examples + {len(wrapped)} other rule examples wrapped as 'input = w' / 'w = input'"
        # moved-term contexts: c*(x+k)=w, -(x+k)=w, k-(x+c)=w, (x+k)/c=w, (x+k)^2=w, with one- and two-level sums inside
        inner = ("add", ("var", "x"), ("const", 0))
        nested: List[Any] = []
        for inn in (inner, ("add", ("add", ("var", "y"), ("const", 0)), ("var", "z")), ("add", ("var", "y"), ("add", ("const", 0), ("var", "z"))),
                    ("add", ("add", ("mul", ("const", 0), ("var", "y")), ("var", "x")), ("const", 1))):
            for wrap in (lambda t: ("mul", ("const", 7), t), lambda t: ("mul", t, ("var", "v")), lambda t: ("neg", t),
                         lambda t: ("sub", ("var", "v"), t), lambda t: ("sub", t, ("var", "v")), lambda t: ("div", t, ("const", 7)),
                         lambda t: ("div", ("var", "v"), t), lambda t: ("pow", t, ("const", 7)), lambda t: ("sgn", t),
                         lambda t: ("add", ("var", "v"), ("sub", ("var", "x"), t)), lambda t: ("add", t, ("var", "v"))):
                nested.append(("eq", wrap(inn), ("var", "w")))
                nested.append(("eq", ("var", "w"), wrap(inn)))
        extra = nested + [
            ("eq", ("mul", ("const", 1), inner), ("var", "w")),
            ("eq", ("neg", inner), ("var", "w")),
            ("eq", ("sub", ("const", 1), inner), ("var", "w")),
            ("eq", ("div", inner, ("const", 1)), ("var", "w")),
            ("eq", ("pow", inner, ("const", 1)), ("var", "w")),
            ("eq", ("add", ("mul", ("const", 1), inner), ("var", "y")), ("var", "w")),
            ("eq", ("var", "w"), ("mul", inner, ("var", "y"))),
            ("eq", ("mul", ("const", 1), ("var", "x")), ("var", "w")),
            ("eq", ("mul", ("const", 1), ("mul", ("var", "x"), ("var", "y"))), ("const", 2)),
        ]
        sks.extend(renumber(e) for e in extra)
        bounds["contexts"] = f"{len(extra)} equations with an addend nested under * / ^ neg and a subtrahend"
    seen = set()
    out = []
    for s in sks:
        if s not in seen:
            seen.add(s)
            out.append(s)
    bounds["payloads"] = ("coefficients: unbounded reals with lazy int/float typing; the grid (see 'grid') where a concrete "
                          "value is required (factor tables); exponents: integers -2..4")
    bounds["assignment"] = "unbounded reals (solver variables)"
    return out, bounds


def run(prop: str, tier: str) -> int:
    rep = Report(prop, tier)
    sks, bounds = skeletons(prop, tier)
    rep.bounds = bounds
    rep.functions = FUNCTIONS
    rep.stubs = shims.STUBS
    rep.assumptions = [
        "floats are modelled as exact reals (rounding of folded constants is outside the model; replay uses rel_tol 1e-9)",
        "non-integer exponents and exponents depending on variables are an uninterpreted function (sound for equality, "
        "counterexamples leaning on it are replayed concretely, otherwise inconclusive)",
        "trees larger than the stated families are outside the claim",
    ]
    rep.explanation = (
        "Bounded symbolic execution of the real rule code: one exploration per (skeleton, node, rule-option); z3 decides "
        "every payload-dependent branch and the final query 'exists payloads, assignment: defined(before), defined(after), "
        "before != after' (C01) / 'solution sets differ' or 'a new divisor can be 0' (C02). states = feasible paths, "
        "transitions = solver-decided branch decisions.")
    budget = 420 if tier == "quick" else 900
    rnd = random.Random(seed())
    rnd.shuffle(sks)
    use_grid("quick")  # the 25-value grid is used by C05/C08/C16 thorough; here the families grow instead
    bounds["grid"] = grid_text()
    items = [(prop, s, name) for s in sks for name, _ in RULES
             if not (s in AM_ONLY and name.startswith("DistributiveFactorOut"))]
    rnd.shuffle(items)
    items.sort(key=lambda it: -sk_size(it[1]))  # biggest first: better balance over the workers
    collect(rep, pmap(case_worker, items, budget_s=budget, chunk=6))
    from . import sequences

    sequences.cross(rep, tier, prop)
    rep.extra["skeletons"] = len(sks)
    required = [name for name, _ in RULES if (prop == "C02") == name.startswith("BalancedMove") or prop == "C02"]
    if prop == "C01":
        required = [name for name, _ in RULES if not name.startswith("BalancedMove")]
    return rep.finish(required_reach=required)
