"""C08: each rule performs its documented transformation on its documented forms.

Schemas are instantiated independently of the rule code (real node constructors, solver-variable
coefficients / exponents, operand sub-trees, surrounding contexts); the rule must accept them and the
result must match the documented shape, numeric factors compared by z3 validity.  Documented
non-applicability is checked the same way.
"""
from __future__ import annotations

import itertools
import random
from fractions import Fraction
from typing import Any, Callable, Dict, List, Optional, Tuple

import z3

from mathy_core import expressions as E

from .. import shims
from ..core import Report, Violation, collect, out_of_time, pmap, seed
from ..rulekit import RULE_BY_NAME, skel_json, skel_unjson
from ..symx import Ctx, PathResult, Stats, SymNum, Unsupported, RV, explore, frac_of
from ..trees import (
    ConcreteProvider,
    SymProvider,
    build,
    grid_text,
    kind,
    model_payloads,
    preorder,
    root_of,
    shape,
    sk_str,
    slot_roles,
    use_grid,
)
from .rules_struct import full_sig, safe, txt
from . import value as V

Path = Tuple[int, ...]


def at(sk: Any, path: Path) -> Any:
    for i in path:
        sk = sk[i]
    return sk


def node_at(root: Any, sk: Any, path: Path) -> Any:
    n = root
    cur = sk
    for i in path:
        if len(cur) == 2:  # unary
            n = n.left if n.left is not None else n.right
        else:
            n = n.left if i == 1 else n.right
        cur = cur[i]
    return n


def rename(sk: Any, prefix: str) -> Any:
    if sk[0] == "const":
        return ("const", f"{prefix}{sk[1]}")
    if sk[0] in ("var", "lit"):
        return sk
    return (sk[0],) + tuple(rename(c, prefix) for c in sk[1:])


# operand library (const slots get a per-instance prefix)
ATOM_X, ATOM_Y, ATOM_K = ("var", "x"), ("var", "y"), ("const", "k")
TERM_KX = ("mul", ("const", "k"), ("var", "x"))
TERM_XN = ("pow", ("var", "x"), ("const", "n"))
GROUP_ADD = ("add", ("var", "x"), ("var", "y"))
GROUP_MUL = ("mul", ("var", "y"), ("var", "z"))
NEG_Y = ("neg", ("var", "y"))
GROUP_DIV = ("div", ("var", "y"), ("const", "d"))
GROUP_SUB = ("sub", ("var", "z"), ("var", "y"))
OPERANDS_ALL = [ATOM_X, ATOM_Y, ATOM_K, TERM_KX, TERM_XN, GROUP_ADD, GROUP_MUL, NEG_Y, GROUP_DIV, GROUP_SUB]
OPERANDS_SMALL = [ATOM_X, ATOM_K, TERM_KX, GROUP_ADD]

# contexts: (label, wrapper, path of the embedded tree inside the wrapper)
CONTEXTS: List[Tuple[str, Callable[[Any], Any], Path]] = [
    ("root", lambda t: t, ()),
    ("add.l", lambda t: ("add", t, ("var", "w")), (1,)),
    ("add.r", lambda t: ("add", ("var", "w"), t), (2,)),
    ("sub.l", lambda t: ("sub", t, ("var", "w")), (1,)),
    ("sub.r", lambda t: ("sub", ("var", "w"), t), (2,)),
    ("mul.l", lambda t: ("mul", t, ("var", "w")), (1,)),
    ("mul.r", lambda t: ("mul", ("var", "w"), t), (2,)),
    ("div.l", lambda t: ("div", t, ("var", "w")), (1,)),
    ("div.r", lambda t: ("div", ("var", "w"), t), (2,)),
    ("pow.l", lambda t: ("pow", t, ("lit", 2)), (1,)),
    ("neg", lambda t: ("neg", t), (1,)),
    ("sgn", lambda t: ("sgn", t), (1,)),
    ("eq.l", lambda t: ("eq", t, ("var", "w")), (1,)),
    ("eq.r", lambda t: ("eq", ("var", "w"), t), (2,)),
]
CTX_BY = {c[0]: c for c in CONTEXTS}
ALL_CTX = [c[0] for c in CONTEXTS]


class Case:
    """One schema instance: skeleton, target path, rule label, expectation."""

    def __init__(self, rule: str, name: str, sk: Any, target: Path, expect: Any, contexts: List[str], grid: bool = False):
        self.rule, self.name, self.sk, self.target, self.expect, self.contexts, self.grid = rule, name, sk, target, expect, contexts, grid


# ------------------------------------------------------------------------------------------------
# pattern matcher over result trees
# ------------------------------------------------------------------------------------------------


class Env:
    def __init__(self, ctx: Optional[Ctx], sigs: Dict[Path, str], pay: Dict[str, Any]):
        self.ctx = ctx
        self.sigs = sigs  # target-relative path -> signature of the original operand
        self.pay = pay  # slot name -> z3 term (symbolic) or number (replay)
        self.unknown = 0

    def num_equal(self, value: Any, want: Any) -> bool:
        lv = SymNum.lift(value)
        if lv is None:
            return False
        if self.ctx is None:
            try:
                return Fraction(value) == Fraction(want) if not isinstance(want, float) and not isinstance(value, float) \
                    else abs(float(value) - float(want)) <= 1e-9 * max(1.0, abs(float(want)))
            except (TypeError, ValueError):
                return False
        wz = SymNum.lift(want)
        wz = wz[0] if wz is not None else want
        r, _ = self.ctx.valid(lv[0] == wz)
        if r == "unknown":
            self.unknown += 1
        return r != "cex"


def child_of(n: Any) -> Any:
    return n.left if n.left is not None else n.right


def match(n: Any, pat: Any, env: Env) -> bool:
    if n is None:
        return False
    t = pat[0]
    if t == "orig":
        return full_sig(n) == env.sigs[pat[1]]
    if t == "node":
        return kind(n) == pat[1] and match(n.left, pat[2], env) and match(n.right, pat[3], env)
    if t == "un":
        return kind(n) == pat[1] and match(child_of(n), pat[2], env)
    if t == "comm":
        if kind(n) != pat[1]:
            return False
        return (match(n.left, pat[2], env) and match(n.right, pat[3], env)) or \
               (match(n.left, pat[3], env) and match(n.right, pat[2], env))
    if t == "kval":
        return kind(n) == "const" and env.num_equal(n.value, pat[1](env.pay))
    if t == "var":
        return kind(n) == "var" and n.identifier == pat[1]
    if t == "alt":
        return any(match(n, p, env) for p in pat[1:])
    if t == "fn":
        return bool(pat[1](n, env))
    raise AssertionError(pat)


def O(*path: int) -> Any:
    return ("orig", tuple(path))


# ------------------------------------------------------------------------------------------------
# schema tables
# ------------------------------------------------------------------------------------------------


def is_chain(op: str, sk: Any) -> bool:
    return sk[0] == op


def cases(tier: str) -> List[Case]:
    out: List[Case] = []
    ops = OPERANDS_ALL if tier != "quick" else OPERANDS_ALL
    A = lambda o: rename(o, "a.")
    B = lambda o: rename(o, "b.")
    C = lambda o: rename(o, "c.")

    # ---- commutative swap ----------------------------------------------------------------------
    for pref in (True, False):
        rl = f"CommutativeSwapRule(preferred={pref})"
        for op in ("add", "mul"):
            for a, b in itertools.product(ops, ops):
                if is_chain(op, a):
                    continue  # chains are swapped child-wise, a different (undocumented) form
                sk = (op, A(a), B(b))
                if not pref and op == "mul" and a[0] == "const" and (b[0] == "var" or (b[0] == "pow" and b[1][0] == "var" and b[2][0] == "const")):
                    # 'k*v' / 'k*v^n' in preferred order: documented as not commuting unless inside a larger product
                    ctxs = [c for c in ALL_CTX if not c.startswith("mul")]
                    out.append(Case(rl, f"preferred-term {op}", sk, (), ("na",), ctxs))
                    continue
                out.append(Case(rl, f"a {op} b", sk, (), ("ok", ("node", op, O(2), O(1))), ALL_CTX))
        for op in ("sub", "div"):
            for a, b in itertools.product(OPERANDS_SMALL, OPERANDS_SMALL):
                out.append(Case(rl, f"a {op} b not commutative", (op, A(a), B(b)), (), ("na",), ALL_CTX))
        out.append(Case(rl, "flip equation", ("eq", A(TERM_KX), B(ATOM_Y)), (), ("ok", ("node", "eq", O(2), O(1))), ["root"]))

    # ---- associative swap ----------------------------------------------------------------------
    rl = "AssociativeSwapRule"
    for op in ("add", "mul"):
        for a, b, c in itertools.product(OPERANDS_SMALL, OPERANDS_SMALL, OPERANDS_SMALL):
            # (a op b) op c, target = inner left node -> a op (b op c)
            sk = (op, (op, A(a), B(b)), C(c))
            out.append(Case(rl, f"(a {op} b) {op} c", sk, (1,), ("ok_parent", ("node", op, O(1, 1), ("node", op, O(1, 2), O(2)))), ALL_CTX))
            # a op (b op c), target = inner right node -> (a op b) op c
            sk = (op, A(a), (op, B(b), C(c)))
            out.append(Case(rl, f"a {op} (b {op} c)", sk, (2,), ("ok_parent", ("node", op, ("node", op, O(1), O(2, 1)), O(2, 2))), ALL_CTX))
        other = "mul" if op == "add" else "add"
        out.append(Case(rl, f"inner {op} under {other}", (other, (op, A(ATOM_X), B(ATOM_Y)), C(ATOM_K)), (1,), ("na",), ALL_CTX))
        out.append(Case(rl, f"root {op}", (op, A(ATOM_X), B(ATOM_Y)), (), ("na",), ["root", "sub.l", "div.r", "neg", "eq.l"]))
    out.append(Case(rl, "leaf", ("add", A(ATOM_X), B(ATOM_Y)), (1,), ("na",), ALL_CTX))

    # ---- constant arithmetic ---------------------------------------------------------------------
    rl = "ConstantsSimplifyRule"
    arith = {"add": lambda p: p["a.k"] + p["b.k"], "sub": lambda p: p["a.k"] - p["b.k"], "mul": lambda p: p["a.k"] * p["b.k"]}
    for op, f in arith.items():
        out.append(Case(rl, f"k1 {op} k2", (op, A(ATOM_K), B(ATOM_K)), (), ("ok", ("kval", f)), ALL_CTX))
    out.append(Case(rl, "k1 / k2 (k2 != 0)", ("div", A(ATOM_K), B(ATOM_K)), (), ("ok_if", lambda p: p["b.k"] != 0,
                                                                                 ("kval", lambda p: p["a.k"] / p["b.k"])), ALL_CTX))
    for v in (ATOM_X, GROUP_ADD, TERM_XN):
        if v[0] == "var":
            out.append(Case(rl, "k1*v * k2", ("mul", ("mul", A(ATOM_K), C(v)), B(ATOM_K)), (),
                            ("ok", ("comm", "mul", ("kval", arith["mul"]), O(1, 2))), ALL_CTX))
        out.append(Case(rl, "k1 * (k2 * a)", ("mul", A(ATOM_K), ("mul", B(ATOM_K), C(v))), (),
                        ("ok", ("comm", "mul", ("kval", arith["mul"]), O(2, 2))), ALL_CTX))
        out.append(Case(rl, "k1 + (k2 + a)", ("add", A(ATOM_K), ("add", B(ATOM_K), C(v))), (),
                        ("ok", ("comm", "add", ("kval", arith["add"]), O(2, 2))), ALL_CTX))
    for sk in (("add", A(ATOM_K), B(ATOM_X)), ("mul", A(ATOM_K), B(ATOM_X)), ("sub", A(ATOM_X), B(ATOM_K)),
               ("mul", A(ATOM_K), B(TERM_XN)), ("add", A(ATOM_X), B(ATOM_Y))):
        out.append(Case(rl, f"not foldable {sk_str(sk)}", sk, (), ("na",), ALL_CTX))

    # ---- multiplicative inverse ------------------------------------------------------------------
    rl = "MultiplicativeInverseRule"
    one = lambda p: 1
    mone = lambda p: -1
    for a, b in itertools.product(ops, ops):
        if b[0] == "neg":
            pat = ("node", "mul", O(1), ("node", "div", ("kval", mone), O(2, 1)))
            out.append(Case(rl, "a / -b", ("div", A(a), B(b)), (), ("ok", pat), ALL_CTX))
        else:
            pat = ("node", "mul", O(1), ("node", "div", ("kval", one), O(2)))
            out.append(Case(rl, "a / b", ("div", A(a), B(b)), (), ("ok", pat), ALL_CTX))
    # a literal 1 as numerator, in every context
    out.append(Case(rl, "1 / b", ("div", ("lit", 1), B(ATOM_Y)), (), ("ok", ("node", "mul", O(1), ("node", "div", ("kval", one), O(2)))), ALL_CTX))
    out.append(Case(rl, "a * b is not a division", ("mul", A(ATOM_X), B(ATOM_Y)), (), ("na",), ALL_CTX))

    # ---- distributive multiply ------------------------------------------------------------------
    rl = "DistributiveMultiplyRule"
    for a, b, c in itertools.product(ops, OPERANDS_SMALL, OPERANDS_SMALL):
        if a[0] == "add":
            continue  # (x+y)*(b+c): either factor may be distributed; covered by the pattern below only for the left one
        pat = lambda pa, pb, pc: ("node", "add", ("comm", "mul", O(*pa), O(*pb)), ("comm", "mul", O(*pa), O(*pc)))
        out.append(Case(rl, "a * (b + c)", ("mul", A(a), ("add", B(b), C(c))), (), ("ok", pat((1,), (2, 1), (2, 2))), ALL_CTX))
        out.append(Case(rl, "(b + c) * a", ("mul", ("add", B(b), C(c)), A(a)), (), ("ok", pat((2,), (1, 1), (1, 2))), ALL_CTX))
    for sk in (("mul", A(ATOM_X), ("sub", B(ATOM_Y), C(ATOM_K))), ("mul", A(ATOM_X), B(ATOM_Y)), ("add", A(ATOM_X), ("add", B(ATOM_Y), C(ATOM_K))),
               ("mul", A(ATOM_K), B(TERM_XN))):
        out.append(Case(rl, f"nothing to distribute {sk_str(sk)}", sk, (), ("na",), ALL_CTX))

    # ---- restate subtraction ----------------------------------------------------------------------
    rl = "RestateSubtractionRule"
    sub_ctx = ["root", "add.l", "add.r", "eq.l", "eq.r"]
    neg = lambda name: (lambda p: -p[name])
    for a in OPERANDS_SMALL:
        for b in (ATOM_X, GROUP_ADD, TERM_XN, GROUP_MUL):
            out.append(Case(rl, "a - b", ("sub", A(a), B(b)), (), ("ok", ("node", "add", O(1), ("un", "neg", O(2)))), sub_ctx))
        # leading constant: either -(k v) or (-k) v
        out.append(Case(rl, "a - k*v", ("sub", A(a), B(TERM_KX)), (),
                        ("ok", ("node", "add", O(1), ("alt", ("un", "neg", O(2)), ("node", "mul", ("kval", neg("b.k")), O(2, 2))))), sub_ctx))
        out.append(Case(rl, "a - k", ("sub", A(a), B(ATOM_K)), (),
                        ("ok", ("node", "add", O(1), ("alt", ("un", "neg", O(2)), ("kval", neg("b.k"))))), sub_ctx))
        # plus a negative constant -> minus
        out.append(Case(rl, "a + k (k < 0)", ("add", A(a), B(ATOM_K)), (),
                        ("ok_if", lambda p: p["b.k"] < 0, ("node", "sub", O(1), ("kval", neg("b.k")))), ALL_CTX))
        out.append(Case(rl, "a + k*v (k < 0)", ("add", A(a), B(TERM_KX)), (),
                        ("ok_if", lambda p: p["b.k"] < 0, ("node", "sub", O(1), ("node", "mul", ("kval", neg("b.k")), O(2, 2)))), ALL_CTX))
        out.append(Case(rl, "a + k*v^n (k < 0)", ("add", A(a), ("mul", ("const", "b.k"), ("pow", ("var", "y"), ("const", "b.n")))), (),
                        ("ok_if", lambda p: p["b.k"] < 0, ("node", "sub", O(1), ("node", "mul", ("kval", neg("b.k")), O(2, 2)))), ALL_CTX))
        out.append(Case(rl, "a + k (k >= 0) stays", ("add", A(a), B(ATOM_K)), (), ("na_if", lambda p: p["b.k"] >= 0), ALL_CTX))
    out.append(Case(rl, "a * b", ("mul", A(ATOM_X), B(ATOM_K)), (), ("na",), ALL_CTX))

    # ---- variable multiply ------------------------------------------------------------------------
    rl = "VariableMultiplyRule"

    def vterm(prefix: str, has_k: bool, has_n: bool, v: str = "x", negv: bool = False) -> Any:
        t: Any = ("var", v)
        if has_n:
            t = ("pow", t, ("const", f"{prefix}n"))
        if has_k:
            t = ("mul", ("const", f"{prefix}k"), t)
        elif negv:
            t = ("neg", t)
        return t

    def vm_check(has_k1: bool, has_n1: bool, has_k2: bool, has_n2: bool, neg1: bool = False):
        def chk(n: Any, env: Env) -> bool:
            m = (lambda p: p["a.n"]) if has_n1 else (lambda p: 1)
            nn = (lambda p: p["b.n"]) if has_n2 else (lambda p: 1)
            power = ("node", "pow", ("var", "x"), ("node", "add", ("kval", m), ("kval", nn)))
            k1 = (lambda p: p["a.k"]) if has_k1 else (lambda p: -1 if neg1 else 1)
            k2 = (lambda p: p["b.k"]) if has_k2 else (lambda p: 1)
            if not (has_k1 or has_k2 or neg1):
                return match(n, power, env)
            # 'up to the order and grouping of the operands of *': one factor is the power, the remaining factors
            # are constants whose product is k1 * k2
            factors: List[Any] = []

            def flat(x: Any) -> None:
                if kind(x) == "mul":
                    flat(x.left)
                    flat(x.right)
                else:
                    factors.append(x)

            flat(n)
            powers = [f for f in factors if kind(f) == "pow"]
            consts = [f for f in factors if kind(f) == "const"]
            if len(powers) != 1 or len(consts) != len(factors) - 1 or not consts or not match(powers[0], power, env):
                return False
            prod: Any = 1
            for c in consts:
                prod = prod * c.value
            return env.num_equal(prod, k1(env.pay) * k2(env.pay))
        return chk

    for hk1, hn1, hk2, hn2 in itertools.product((False, True), repeat=4):
        sk = ("mul", vterm("a.", hk1, hn1), vterm("b.", hk2, hn2))
        out.append(Case(rl, f"[{'k' if hk1 else ''}]x[{'^m' if hn1 else ''}] * [{'k' if hk2 else ''}]x[{'^n' if hn2 else ''}]", sk, (),
                        ("ok", ("fn", vm_check(hk1, hn1, hk2, hn2))), ALL_CTX))
    for hn1, hk2, hn2 in itertools.product((False, True), repeat=3):
        sk = ("mul", vterm("a.", False, hn1, negv=True), vterm("b.", hk2, hn2))
        out.append(Case(rl, f"-x[{'^m' if hn1 else ''}] * [{'k' if hk2 else ''}]x[{'^n' if hn2 else ''}]", sk, (),
                        ("ok", ("fn", vm_check(False, hn1, hk2, hn2, neg1=True))), ALL_CTX))
    for sk in (("mul", ("var", "x"), ("var", "y")), ("mul", ("var", "x"), ("pow", ("var", "y"), ("const", "b.n"))),
               ("mul", ("const", "a.k"), ("var", "x")), ("add", ("var", "x"), ("var", "x"))):
        out.append(Case(rl, f"unlike or not a product {sk_str(sk)}", sk, (), ("na",), ALL_CTX))

    # ---- distributive factor out -------------------------------------------------------------------
    def fo_check(k1: Callable[[Any], Any], k2: Callable[[Any], Any], has_n: bool, var: str = "x"):
        def chk(n: Any, env: Env) -> bool:
            if kind(n) != "mul":
                return False
            for s, t in ((n.left, n.right), (n.right, n.left)):
                if kind(s) != "add" or kind(s.left) != "const" or kind(s.right) != "const":
                    continue
                # t = [g *] x [^n]
                g: Any = 1
                core = t
                if kind(core) == "mul" and kind(core.left) == "const":
                    g, core = core.left.value, core.right
                if has_n:
                    if kind(core) != "pow" or kind(core.right) != "const" or not env.num_equal(core.right.value, env.pay["a.n"]):
                        continue
                    core = core.left
                if kind(core) != "var" or core.identifier != var:
                    continue
                if env.num_equal(s.left.value * g, k1(env.pay)) and env.num_equal(s.right.value * g, k2(env.pay)):
                    return True
            return False
        return chk

    for cons in (False, True):
        rl = f"DistributiveFactorOutRule(constants={cons})"
        for hk1, hk2, hn in itertools.product((False, True), repeat=3):
            t1: Any = ("var", "x")
            t2: Any = ("var", "x")
            if hn:
                t1 = ("pow", t1, ("const", "a.n"))
                t2 = ("pow", t2, ("lit_same", "a.n"))
            if hk1:
                t1 = ("mul", ("const", "a.k"), t1)
            if hk2:
                t2 = ("mul", ("const", "b.k"), t2)
            k1 = (lambda p: p["a.k"]) if hk1 else (lambda p: 1)
            k2 = (lambda p: p["b.k"]) if hk2 else (lambda p: 1)
            cond = (lambda p, hk1=hk1, hk2=hk2: z3.And(p["a.k"] != 0 if hk1 else True, p["b.k"] != 0 if hk2 else True)
                    if any(z3.is_expr(v) for v in p.values()) else ((p["a.k"] != 0 if hk1 else True) and (p["b.k"] != 0 if hk2 else True)))
            out.append(Case(rl, f"[{'k1' if hk1 else ''}]x[{'^n' if hn else ''}] + [{'k2' if hk2 else ''}]x[{'^n' if hn else ''}]",
                            ("add", t1, t2), (), ("ok_if", cond, ("fn", fo_check(k1, k2, hn))), ALL_CTX, grid=True))
        for c1, c2 in ((2, 3), (3, 5), (1, 7), (4, 9)):
            out.append(Case(rl, "coprime unlike variables", ("add", ("mul", ("lit", c1), ("var", "x")), ("mul", ("lit", c2), ("var", "y"))), (),
                            ("na",), ALL_CTX, grid=True))
            out.append(Case(rl, "unlike exponents", ("add", ("mul", ("lit", c1), ("pow", ("var", "x"), ("lit", 2))),
                                                     ("mul", ("lit", c2), ("pow", ("var", "x"), ("lit", 3)))), (), ("na",), ALL_CTX, grid=True))
        for c1, c2 in ((4, 6), (12, 8), (3, 9), (5, 7)):
            import math

            g = math.gcd(c1, c2)
            sk = ("add", ("lit", c1), ("lit", c2))
            if cons and g > 1:
                def kchk(n: Any, env: Env, c1: int = c1, c2: int = c2) -> bool:
                    if kind(n) != "mul":
                        return False
                    for s, t in ((n.left, n.right), (n.right, n.left)):
                        if kind(s) == "add" and kind(s.left) == "const" and kind(s.right) == "const" and kind(t) == "const":
                            if env.num_equal(s.left.value * t.value, c1) and env.num_equal(s.right.value * t.value, c2) \
                                    and not env.num_equal(t.value, 1):
                                return True
                    return False
                out.append(Case(rl, "k1 + k2 with a common factor", sk, (), ("ok", ("fn", kchk)), ALL_CTX, grid=True))
            else:
                out.append(Case(rl, "k1 + k2 (constants off or coprime)", sk, (), ("na",), ALL_CTX, grid=True))

    # ---- balanced move ---------------------------------------------------------------------------------
    rl = "BalancedMoveRule"
    # the other side of the equation: a lone variable, a sum, a product with a sum inside (the move must not depend on it)
    for R in (("var", "w"), ("add", ("var", "v"), ("lit", 6)), ("mul", ("lit", 4), ("add", ("var", "v"), ("lit", 1)))):
        for t in (ATOM_K, ATOM_X, TERM_KX, TERM_XN, NEG_Y):
            tt = rename(t, "t.")
            for rest in (ATOM_Y, ("mul", ("lit", 3), ("var", "z"))):
                # t as right addend, left addend, nested addend; on the left and on the right side
                forms = [(("add", A(rest), tt), (1, 2), (1, 1)), (("add", tt, A(rest)), (1, 1), (1, 2)),
                         (("add", ("add", A(rest), tt), ("var", "v")), (1, 1, 2), None)]
                for side_sk, tpath, keep in forms:
                    sk = ("eq", side_sk, R)
                    if keep is not None:
                        pat = ("node", "eq", O(*keep), ("node", "sub", O(2), O(*tpath)))
                    else:
                        pat = ("node", "eq", ("node", "add", O(1, 1, 1), O(1, 2)), ("node", "sub", O(2), O(*tpath)))
                    out.append(Case(rl, f"... + t + ... = R  (t = {sk_str(tt)})", sk, tpath, ("ok_root", pat), ["root"]))
                    # mirrored: R = side
                    mp = tuple([2] + list(tpath[1:]))
                    sk2 = ("eq", R, side_sk)
                    if keep is not None:
                        pat2 = ("node", "eq", ("node", "sub", O(1), O(*mp)), O(*([2] + list(keep[1:]))))
                    else:
                        pat2 = ("node", "eq", ("node", "sub", O(1), O(*mp)), ("node", "add", O(2, 1, 1), O(2, 2)))
                    out.append(Case(rl, f"R = ... + t + ...  (t = {sk_str(tt)})", sk2, mp, ("ok_root", pat2), ["root"]))
        for a in (ATOM_X, GROUP_MUL, TERM_XN):
            sk = ("eq", ("mul", ("const", "t.k"), A(a)), R)
            pat = ("node", "eq", ("node", "div", O(1), O(1, 1)), ("node", "div", O(2), O(1, 1)))
            out.append(Case(rl, "k*a = R (k != 0)", sk, (1, 1), ("ok_root_if", lambda p: p["t.k"] != 0, pat), ["root"]))
    R = ("var", "w")
    out.append(Case(rl, "no equation", ("add", ("var", "x"), ("const", "t.k")), (2,), ("na",), ["root", "add.l", "mul.r"]))
    out.append(Case(rl, "addend under a product", ("eq", ("mul", ("lit", 2), ("add", ("var", "x"), ("const", "t.k"))), R), (1, 2, 2), ("na",), ["root"]))
    out.append(Case(rl, "coefficient with additions on its side", ("eq", ("add", ("mul", ("const", "t.k"), ("var", "x")), ("var", "y")), R), (1, 1, 1),
                    ("na",), ["root"]))
    return out


# ------------------------------------------------------------------------------------------------
# running one case
# ------------------------------------------------------------------------------------------------


def expand(sk: Any) -> Any:
    """('lit_same', slot) shares the payload of another slot (same exponent on both terms)."""
    if sk[0] == "lit_same":
        return ("const", sk[1])
    if sk[0] in ("const", "var", "lit"):
        return sk
    return (sk[0],) + tuple(expand(c) for c in sk[1:])


class SharingProvider:
    """Hands out one payload object per slot name even when the slot occurs twice."""

    def __init__(self, inner: Any):
        self.inner = inner
        self.cache: Dict[Any, Any] = {}

    def get(self, slot: Any, role: str) -> Any:
        if slot not in self.cache:
            self.cache[slot] = self.inner.get(slot, role)
        return self.cache[slot]


def run_case(case: Case, ctx_label: str, prov: Any, ctx: Optional[Ctx], pay_terms: Callable[[], Dict[str, Any]]):
    """-> (status, problems).  status: 'ok' | 'vacuous' (side condition excludes this path)."""
    _, wrap, inner_path = CTX_BY[ctx_label]
    sk = wrap(expand(case.sk))
    roles = slot_roles(sk)
    sprov = SharingProvider(prov)
    root = build(sk, sprov, roles)
    base = node_at(root, sk, inner_path)
    target = node_at(base, expand(case.sk), case.target)
    rule = RULE_BY_NAME[case.rule]()
    # signatures of every original operand, addressed relative to the schema root
    sigs: Dict[Path, str] = {}

    def collect_sigs(n: Any, s: Any, path: Path) -> None:
        sigs[path] = full_sig(n)
        if s[0] in ("const", "var", "lit"):
            return
        if len(s) == 2:
            collect_sigs(child_of(n), s[1], path + (1,))
        else:
            collect_sigs(n.left, s[1], path + (1,))
            collect_sigs(n.right, s[2], path + (2,))

    collect_sigs(base, expand(case.sk), ())
    pay = pay_terms()
    env = Env(ctx, sigs, pay)
    exp = case.expect
    mode = exp[0]
    desc = f"{case.rule} on '{case.name}' ({txt(base)}) in context {ctx_label}"
    cond = None
    if mode in ("ok_if", "ok_root_if", "na_if"):
        cond = exp[1](pay)
        if ctx is not None and not isinstance(cond, bool):
            if not ctx.branch(cond):
                return "vacuous", []
        elif not cond:
            return "vacuous", []
    applicable, err = safe(lambda: bool(rule.can_apply_to(target)))
    if err is not None:
        return "ok", [("raised", f"{desc}: can_apply_to raised {type(err).__name__}")]
    if mode in ("na", "na_if"):
        if applicable:
            return "ok", [("should-not-apply", f"{desc}: documented as not applicable, but can_apply_to is True")]
        return "ok", []
    if not applicable:
        return "ok", [("rejected", f"{desc}: documented form not accepted (can_apply_to is False)")]
    parent = target.parent
    change, err = safe(lambda: rule.apply_to(target))
    if err is not None or getattr(change, "result", None) is None:
        return "ok", [("apply-failed", f"{desc}: apply_to raised {type(err).__name__ if err else 'nothing but returned no result'}")]
    res = change.result
    pat = exp[-1]
    if mode == "ok_parent":
        # the rotation moves the target above its parent: the documented shape is that of the whole neighbourhood
        subject = res
    elif mode in ("ok_root", "ok_root_if"):
        subject = root_of(res)
    else:
        subject = res
    if not match(subject, pat, env):
        return "ok", [("shape", f"{desc}: result '{txt(subject)}' does not have the documented shape")]
    if env.unknown:
        return "ok", [("inconclusive", "solver unknown on a coefficient comparison")]
    return "ok", []


def sym_run(case: Case, ctx_label: str, mode: str, ctx: Ctx):
    prov = SymProvider(ctx, mode, prefix="")
    holder: Dict[str, Any] = {}

    def pay_terms() -> Dict[str, Any]:
        return {str(k): v for k, v in prov.z.items()}

    with shims.installed():
        status, problems = run_case(case, ctx_label, prov, ctx, pay_terms)
    pay = None
    if problems:
        pay = model_payloads(ctx.ensure_model(), prov)
    return status, problems, pay


def concrete_run(case: Case, ctx_label: str, pay: Dict[str, Any]):
    def pay_vals() -> Dict[str, Any]:
        return {str(k): v for k, v in pay.items()}

    return run_case(case, ctx_label, ConcreteProvider(pay), None, pay_vals)


CASES: List[Case] = []


def worker(item: Tuple[int, str]) -> Dict[str, Any]:
    idx, ctx_label = item
    case = CASES[idx]
    part = V.new_part()
    part["cases"] = 1
    st: Stats = part["stats"]
    label = f"{case.rule} / {case.name} / {ctx_label}"
    mode = "grid" if case.grid else "real"
    results = explore(lambda ctx: sym_run(case, ctx_label, mode, ctx), st, max_paths=4000)
    if mode == "real" and any(r.status == "needs_bound" for r in results):
        results = explore(lambda ctx: sym_run(case, ctx_label, "grid", ctx), st, max_paths=4000)
    reached = False
    for r in results:
        if r.status != "ok":
            part["inconclusive"] += 1
            if len(part["inconclusive_samples"]) < 3:
                part["inconclusive_samples"].append(f"{label}: {r.status} {r.detail}")
            continue
        status, problems, pay = r.value
        if status == "vacuous":
            continue
        reached = True
        part["queries"] += 1
        real = [p for p in problems if p[0] != "inconclusive"]
        if len(real) != len(problems):
            part["inconclusive"] += 1
        if not real:
            part["proved"] += 1
            continue
        st2, again = concrete_run(case, ctx_label, pay)
        hit = [p for p in again if p[0] in {q[0] for q in real}]
        if hit:
            keys = {"rule": case.rule, "schema": case.name, "fault": hit[0][0]}
            part["violations"].append(Violation("C08", f"{case.rule}:{hit[0][0]}", keys, hit[0][1],
                                                {"kind": "schema", "case_index": idx, "rule": case.rule, "schema": case.name,
                                                 "context": ctx_label, "payloads": {str(k): v for k, v in pay.items()},
                                                 "observed": hit[0][1]}))
        else:
            part["engine_mismatch"] += 1
            part["mismatch_samples"].append(f"{label} {pay}: {real[0][1][:200]}")
    if reached:
        part["nontrivial"] = 1
        part["reach"][case.rule] = 1
        part["samples"].append({"schema": label})
    uniq = {}
    for v in part["violations"]:
        uniq.setdefault(v.ident(), v)
    part["violations"] = list(uniq.values())
    return part


def replay_record(rec: Dict[str, Any]) -> Tuple[bool, str]:
    global CASES
    if not CASES:
        CASES = cases("thorough")
    cands = [c for c in CASES if c.rule == rec["rule"] and c.name == rec["schema"]]
    for c in cands:
        try:
            st, probs = concrete_run(c, rec["context"], rec["payloads"])
        except Exception:
            continue
        if probs:
            return True, "; ".join(p[1] for p in probs)
    return False, ""


def run(tier: str) -> int:
    global CASES
    rep = Report("C08", tier)
    use_grid("quick" if tier == "quick" else "full")
    CASES = cases(tier)
    items = [(i, c) for i, case in enumerate(CASES) for c in case.contexts]
    rep.bounds = {"schemas": len(CASES), "schema_instances_with_context": len(items),
                  "operands": [sk_str(o) for o in OPERANDS_ALL], "contexts": ALL_CTX,
                  "coefficients": "unbounded reals (solver variables), exponents -2..4; factor-out on the grid " + grid_text(),
                  "by_rule": {r: sum(1 for c in CASES if c.rule == r) for r in sorted({c.rule for c in CASES})}}
    rep.functions = V.FUNCTIONS
    rep.stubs = shims.STUBS
    rep.explanation = (
        "Documented schemas (rules/*.md, class docstrings; table in DESIGN.md section 4 C08) are built with the real node "
        "constructors from operand sub-trees with solver-variable coefficients and exponents and embedded in surrounding "
        "contexts; on every feasible path the rule must accept the form and the result must match the documented shape - "
        "operands by structural signature (payload identity = solver term), commutative operands in either order, numeric "
        "factors by z3 validity (which is the 'up to which common factor is pulled out' latitude). Documented "
        "non-applicability must be respected.")
    rep.assumptions = ["a schema is what the documentation shows; chained variants special-cased by the code are not demanded",
                       "power folding (k1 ^ k2) is not part of the constant-arithmetic schema table"]
    random.Random(seed()).shuffle(items)
    collect(rep, pmap(worker, items, budget_s=420 if tier == "quick" else 720, chunk=16))
    return rep.finish(required_reach=sorted({c.rule for c in CASES}))
