"""C13: cloning yields an identical, independent tree and locates the cloned node."""
from __future__ import annotations

import random
from typing import Any, Dict, List, Optional, Tuple

import z3

from mathy_core import expressions as E

from .. import shims
from ..core import Report, Violation, collect, out_of_time, pmap, seed
from ..rulekit import family_B, skel_json, skel_unjson
from ..symx import Ctx, PathResult, Stats, SymNum, Unsupported, explore
from ..trees import (
    ConcreteProvider,
    Opaque,
    OpaqueProvider,
    SymProvider,
    Touched,
    audit,
    build,
    enum_upto,
    kind,
    model_payloads,
    preorder,
    root_of,
    sk_size,
    sk_str,
    slot_roles,
)
from .rules_struct import pkey, safe, txt
from . import value as V

Problem = Tuple[str, str]
MODE = ["real"]


def csig(n: Any) -> Any:
    """Everything C13 says a clone must reproduce: class, id, payload, identifier, operand sides."""
    if n is None:
        return None
    return (type(n).__name__, n.id, pkey(n.value) if kind(n) == "const" else None,
            n.identifier if kind(n) == "var" else None, getattr(n, "child_on_left", None), csig(n.left), csig(n.right))


def path_of(n: Any) -> List[str]:
    out = []
    while n.parent is not None:
        out.append("L" if n.parent.left is n else ("R" if n.parent.right is n else "?"))
        n = n.parent
    return list(reversed(out))


def shared(a: Any, b: Any) -> int:
    ia = {id(n) for n in preorder(a)}
    return sum(1 for n in preorder(b) if id(n) in ia)


def describe(n: Any) -> str:
    from ..trees import sig

    return sig(n)


def sym_env(ctx: Optional[Ctx], names: List[str]) -> Dict[str, Any]:
    if ctx is None:
        return {v: float(i + 2) + 0.5 for i, v in enumerate(names)}
    return {v: SymNum(z3.Real(f"v_{v}"), False) for v in names}


def run_eval(tree: Any, env: Dict[str, Any]) -> Tuple[str, Any]:
    try:
        return "value", tree.evaluate(env)
    except Exception as e:
        return "raised", type(e).__name__


def same_outcome(ctx: Optional[Ctx], a: Tuple[str, Any], b: Tuple[str, Any]) -> bool:
    if a[0] != b[0]:
        return False
    if a[0] == "raised":
        return a[1] == b[1]
    x, y = a[1], b[1]
    if not isinstance(x, SymNum) and not isinstance(y, SymNum):
        return (x != x and y != y) or bool(x == y)
    lx, ly = SymNum.lift(x), SymNum.lift(y)
    if lx is None or ly is None:
        return (x != x and y != y) or x == y
    if ctx is None:
        return bool(x == y) or (x != x and y != y)
    r, _ = ctx.valid(lx[0] == ly[0])
    return r != "cex"


MUTATIONS = ["payload", "identifier", "detach-left", "detach-right", "swap"]


def mutate(tree: Any, which: int, j: int) -> bool:
    nodes = preorder(tree)
    n = nodes[j % len(nodes)]
    m = MUTATIONS[which]
    if m == "payload":
        ks = [x for x in nodes if kind(x) == "const"]
        if not ks:
            return False
        ks[j % len(ks)].value = 77
        return True
    if m == "identifier":
        vs = [x for x in nodes if kind(x) == "var"]
        if not vs:
            return False
        vs[j % len(vs)].identifier = "q"
        return True
    if m == "detach-left":
        if n.left is None:
            return False
        n.set_left(None, True)
        return True
    if m == "detach-right":
        if n.right is None:
            return False
        n.set_right(None, True)
        return True
    l, r = n.left, n.right
    if l is None and r is None:
        return False
    n.left, n.right = r, l
    return True


def c13_check(sk: Any, prov: Any, ctx: Optional[Ctx], sel: Dict[str, int], info: Dict[str, Any]) -> List[Problem]:
    """sel['part']: 0 = clone + evaluate, 1 = independence under a mutation, 2 = clone_from_root via an inner node."""
    if sel["part"] == 2:
        return cfr_check(sk, prov, sel)
    root = build(sk, prov)
    nodes = preorder(root)
    problems: List[Problem] = []
    want = csig(root)
    # --- clone()
    c, err = safe(lambda: root.clone())
    if err is not None:
        return [("clone-raised", f"clone of {describe(root)} raised {type(err).__name__}")]
    info["applicable"] = True
    if csig(c) != want:
        problems.append(("clone-differs", f"clone of {describe(root)} differs: {describe(c)} / child sides, ids or payloads"))
    if shared(root, c):
        problems.append(("clone-shares", f"clone of {describe(root)} shares node objects with the original"))
    for p in audit(c):
        problems.append(("clone-audit", f"clone of {describe(root)}: {p}"))
    # --- evaluates identically (real evaluate on both, symbolic assignment)
    if kind(root) != "eq" and sel["part"] == 0:
        names = sorted({n.identifier for n in nodes if kind(n) == "var"})
        env = sym_env(ctx, names)
        a, b = run_eval(root, env), run_eval(c, env)
        if not same_outcome(ctx, a, b):
            problems.append(("clone-evaluates", f"clone of {describe(root)} evaluates differently: original {a[0]} "
                             f"{a[1] if a[0] == 'raised' else ''}, clone {b[0]} {b[1] if b[0] == 'raised' else ''}"))
    # --- independence: mutate one copy, the other must not change
    if sel["part"] == 0:
        return problems
    which, j, side = sel["mut"], sel["j"], sel["side"]
    a_tree, b_tree = (c, root) if side == 0 else (root, c)
    if not problems:
        keep = csig(b_tree)
        if mutate(a_tree, which, j) and csig(b_tree) != keep:
            problems.append(("not-independent", f"{MUTATIONS[which]} on the {'clone' if side == 0 else 'original'} of "
                             f"{describe(root)} changed the other copy"))
    return problems


def with_shared_ids(root: Any) -> Any:
    """Give equal leaves the same id, as rewrites do when they put clones of one subtree into the result
    (clone() keeps ids): 'trees built by rewrites' contain several nodes with one id."""
    seen: Dict[Tuple[str, str], str] = {}
    for n in preorder(root):
        if kind(n) == "var":
            key = ("var", str(n.identifier))
            n.id = seen.setdefault(key, n.id)
    return root


def cfr_check(sk: Any, prov: Any, sel: Dict[str, int]) -> List[Problem]:
    """clone_from_root through an inner node."""
    problems: List[Problem] = []
    root2 = build(sk, prov)
    if sel.get("dup"):
        root2 = with_shared_ids(root2)
    nodes2 = preorder(root2)
    inner = nodes2[sel["inner"] % len(nodes2)]
    hist = sel.get("hist", 0)
    if hist and kind(root2) != "eq":
        # an earlier request through the same node, then the tree grows at the top through the public constructors
        safe(lambda: inner.clone_from_root())
        if hist == 1:
            root2 = E.AddExpression(root2, E.ConstantExpression(11))
        elif hist == 2:
            root2 = E.MultiplyExpression(E.VariableExpression("q"), root2)
        elif hist == 3:
            root2 = E.NegateExpression(root2)
        elif inner is not root2:
            # a new top node takes over the operands of the old root (what a rewrite at the root does); the old root
            # stays behind without a parent
            if root2.left is not None and root2.right is not None:
                root2 = E.AddExpression(root2.left, root2.right)
            else:
                root2 = E.NegateExpression(root2.left if root2.left is not None else root2.right)
    want2 = csig(root2)
    r, err = safe(lambda: inner.clone_from_root())
    if err is not None:
        problems.append(("cfr-raised", f"clone_from_root at node {path_of(inner)} of {describe(root2)} raised {type(err).__name__}"))
        return problems
    try:
        top = root_of(r)
    except AssertionError:
        return problems + [("cfr-cycle", "clone_from_root result has a parent cycle")]
    if csig(top) != want2:
        problems.append(("cfr-incomplete", f"clone_from_root at {path_of(inner)} of {describe(root2)}: the copy's root is "
                         f"{describe(top)}"))
    if path_of(r) != path_of(inner) or csig(r) != csig(inner):
        problems.append(("cfr-wrong-node", f"clone_from_root at {path_of(inner)} of {describe(root2)} returned the node at "
                         f"{path_of(r)} ({describe(r)})"))
    if shared(root2, top):
        problems.append(("cfr-shares", f"clone_from_root of {describe(root2)} shares node objects with the original"))
    if csig(root2) != want2:
        problems.append(("cfr-modifies", f"clone_from_root modified the original {describe(root2)}"))
    return problems


def print_check(sk: Any) -> List[Problem]:
    """str(clone) == str(original) on two concrete payload assignments (text depends on payloads only through
    the constant's own rendering, which both copies share)."""
    roles = slot_roles(sk)
    out: List[Problem] = []
    for pool in ({"coef": 3, "exp": 2, "fact": 3}, {"coef": -1.5, "exp": -1, "fact": 0}):
        root = build(sk, ConcreteProvider({s: pool[r] for s, r in roles.items()}))
        try:
            c = root.clone()
        except Exception:
            continue
        a, b = V.safe_str(root), V.safe_str(c)
        if a != b:
            out.append(("clone-prints", f"clone prints '{b}', original '{a}'"))
    return out


def worker(item: Any) -> Dict[str, Any]:
    sk = item
    part = V.new_part()
    st: Stats = part["stats"]
    part["cases"] = 1
    n = sk_size(sk)

    def h(ctx: Ctx) -> Any:
        part_no = ctx.choose(3, "part")
        sel = {"part": part_no, "inner": 0, "mut": 0, "side": 0, "j": 0}
        if part_no == 1:
            sel.update(mut=ctx.choose(len(MUTATIONS), "mut"), side=ctx.choose(2, "side"), j=ctx.choose(n, "j"))
        elif part_no == 2:
            sel.update(inner=ctx.choose(n, "inner"), dup=ctx.choose(2, "dup"), hist=ctx.choose(5, "hist"))
        info: Dict[str, Any] = {}
        roles = slot_roles(sk)
        if part_no != 0:
            # payload-independent code: run on opaque payloads; fall back to solver payloads if one is inspected
            try:
                probs = c13_check(sk, OpaqueProvider(), None, sel, info)
                pay = {s_: (2 if roles[s_] != "coef" else 3) for s_ in roles} if probs else None
                return probs, sel, pay
            except Touched:
                pass
        prov = SymProvider(ctx, MODE[0])
        with shims.installed():
            probs = c13_check(sk, prov, ctx, sel, info)
        pay = model_payloads(ctx.ensure_model(), prov) if probs else None
        return probs, sel, pay

    MODE[0] = "real"
    results = explore(h, st, max_paths=20000)
    if any(r.status == "needs_bound" for r in results):
        MODE[0] = "grid"
        results = explore(h, st, max_paths=20000)
    part["nontrivial"] = 1
    for r in results:
        if r.status != "ok":
            part["inconclusive"] += 1
            if len(part["inconclusive_samples"]) < 3:
                part["inconclusive_samples"].append(f"{sk_str(sk)}: {r.status} {r.detail}")
            continue
        probs, sel, pay = r.value
        part["queries"] += 1
        if not probs:
            part["proved"] += 1
            continue
        again = c13_check(sk, ConcreteProvider(pay), None, sel, {})
        labels = {p[0] for p in probs}
        hit = [p for p in again if p[0] in labels]
        if hit:
            keys = {"fault": hit[0][0]}
            part["violations"].append(Violation("C13", hit[0][0], keys, hit[0][1],
                                                {"kind": "clone", "skeleton": skel_json(sk), "sel": sel,
                                                 "payloads": {str(k): v for k, v in pay.items()}, "observed": hit[0][1]}))
        else:
            part["engine_mismatch"] += 1
            part["mismatch_samples"].append(f"{sk_str(sk, pay)}: {probs[0][1][:200]}")
    for lab, text in print_check(sk):
        part["violations"].append(Violation("C13", lab, {"fault": lab}, text,
                                            {"kind": "clone", "skeleton": skel_json(sk), "sel": None, "payloads": {},
                                             "observed": text}))
    part["samples"].append({"skeleton": sk_str(sk), "paths": len(results)})
    part["reach"]["clone"] = 1
    uniq = {}
    for v in part["violations"]:
        uniq.setdefault(v.site, v)  # one finding per fault kind and skeleton is enough
    part["violations"] = list(uniq.values())
    return part


def replay_record(rec: Dict[str, Any]) -> Tuple[bool, str]:
    sk = skel_unjson(rec["skeleton"])
    if rec.get("sel") is None:
        probs = print_check(sk)
    else:
        pay = {int(k): v for k, v in rec["payloads"].items()}
        probs = c13_check(sk, ConcreteProvider(pay), None, rec["sel"], {})
    return bool(probs), "; ".join(p[1] for p in probs)


UNOPS = ("neg", "negL", "fact", "factL", "sgn", "sgnL", "abs", "absL")


def run(tier: str) -> int:
    rep = Report("C13", tier)
    n = 4 if tier == "quick" else 5
    sks = list(enum_upto(n, unops=UNOPS, variables=("x",) if tier != "quick" else ("x", "y")))
    extra = [sk for _, sk, _ in family_B(13 if tier == "quick" else 40)]
    rep.bounds = {"alphabet": "const/x(/y), + - * / ^, neg sgn abs fact each with the operand on the right and on the left",
                  "size": f"every tree with <= {n} nodes ({len(sks)}), built through the public constructors",
                  "examples": f"{len(extra)} rule example inputs (repeated kinds, deep chains)",
                  "duplicate_ids": "clone_from_root also on trees whose equal variables share one id (as after a rewrite that clones a subtree)",
                  "selectors": "inner node, mutation kind (payload/identifier/detach-left/detach-right/swap), mutated copy, "
                               "mutated node: all values explored per tree",
                  "payloads": "unbounded reals (solver variables); factorial operands 0..5"}
    rep.functions = ["BinaryTreeNode.clone", "MathExpression.clone/clone_from_root/path_to_root",
                     "ConstantExpression.clone", "VariableExpression.clone", "UnaryExpression.__init__/set_child/get_child",
                     "*.evaluate (on both copies)"]
    rep.stubs = shims.STUBS
    rep.explanation = (
        "Per tree: clone() must reproduce class, id, payload (identity of the solver term), identifier and operand side of "
        "every node, share no node object, pass the structure audit, and evaluate to the same value for every assignment "
        "(real evaluate on both copies, equality decided by z3) or raise the same exception; a mutation of either copy "
        "leaves the other unchanged; inner.clone_from_root() returns the node at the same root path with the same subtree "
        "inside a complete, disjoint copy, leaving the original untouched. str() equality is checked on two concrete payload "
        "assignments per tree.")
    rep.assumptions = ["only the inner.clone_from_root() form is exercised", "trees beyond the size bound are outside the claim"]
    items = sks + extra
    random.Random(seed()).shuffle(items)
    items.sort(key=lambda s: -sk_size(s))
    collect(rep, pmap(worker, items, budget_s=400 if tier == "quick" else 720, chunk=8))
    return rep.finish(required_reach=["clone"])
