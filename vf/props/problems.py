"""C17: generated problems are valid and contain what they promise.

Every draw the generators make from `random` is a solver variable / a solver-enumerated choice, so the
exploration covers every draw sequence (a superset of every seed) inside the stated bounds.  Numbers
stay symbolic through string assembly as placeholders and are rendered from path models at the end.
"""
from __future__ import annotations

import itertools
import random as _random
from fractions import Fraction
from typing import Any, Dict, List, Optional, Tuple

import z3

import mathy_core.problems as PR
from mathy_core.parser import ExpressionParser
from mathy_core.util import has_like_terms

from ..core import Report, Violation, collect, out_of_time, pmap, seed
from ..symx import Budget, Ctx, Stats, SymNum, Unsupported, cur, explore, frac_of

MARK = chr(0xE000)
DRAW = {"bound": 9}  # at most this many index draws (variable / choice picks) on one path
RANDOM_REPS = [0.0, 0.04, 0.05, 0.5, 0.96, 0.999]
SMALL_VARS = list("abxyz")


class PNum(SymNum):
    """A drawn number that renders as a placeholder inside strings."""

    __slots__ = ()

    def _ph(self) -> str:
        reg = cur().notes.setdefault("pnums", [])
        reg.append(self)
        return MARK + chr(0xE100 + len(reg) - 1)

    def __format__(self, spec: str) -> str:
        return self._ph()

    def __str__(self) -> str:
        return self._ph()


SCHED = {"mode": None}  # None: symbolic draws; "rr": index draws round-robin; "first": every index draw is 0


def _scripted_index(n: int) -> int:
    c = cur()
    k = c.notes.get("rr", 0)
    c.notes["rr"] = k + 1
    return (k % n) if SCHED["mode"] == "rr" else 0


class RandShim:
    """Stands in for the `random` name inside mathy_core.problems."""

    @staticmethod
    def _fresh(lo: Any, hi: Any) -> Any:
        c = cur()
        if SCHED["mode"] is not None:
            # scheduled runs: only the draws made directly by a generator (term counts) are explored, everything
            # else is scripted (booleans alternate, numbers take the low end)
            import sys as _sys

            caller = _sys._getframe(2).f_code.co_name
            if caller.startswith("gen_"):
                return lo + c.choose(hi - lo + 1, "top")
            if caller == "rand_bool":
                k = c.notes.get("flip", 0)
                c.notes["flip"] = k + 1
                return lo if k % 2 == 0 else hi
            return lo
        z = z3.Int(c.fresh("r"))
        c.add(z3.And(z >= lo, z <= hi))
        return PNum(z3.ToReal(z), True)

    @staticmethod
    def randint(a: int, b: int) -> PNum:
        if b < a:
            raise ValueError(f"empty range in randrange({a}, {b + 1})")
        return RandShim._fresh(a, b)

    @staticmethod
    def randrange(n: int) -> PNum:
        if n <= 0:
            raise ValueError("empty range for randrange()")
        return RandShim._fresh(0, n - 1)

    @staticmethod
    def random() -> float:
        if SCHED["mode"] is not None:
            return 0.5
        return RANDOM_REPS[cur().choose(len(RANDOM_REPS), "rnd")]

    @staticmethod
    def uniform(a: float, b: float) -> Any:
        c = cur()
        if SCHED["mode"] is not None:
            return (a + b) / 2
        z = z3.Real(c.fresh("u"))
        c.add(z3.And(z >= a, z <= b))
        return SymNum(z, False)

    @staticmethod
    def _pick(n: int) -> int:
        c = cur()
        if SCHED["mode"] is not None:
            return _scripted_index(n)
        c.notes["index_draws"] = c.notes.get("index_draws", 0) + 1
        if c.notes["index_draws"] > DRAW["bound"]:
            raise Budget("more index draws than the stated bound")
        return c.choose(n, "pick")

    @staticmethod
    def choice(xs: Any) -> Any:
        return xs[RandShim._pick(len(xs))]

    @staticmethod
    def sample(population: Any, k: int) -> List[Any]:
        pool = list(population)
        if k > len(pool) or k < 0:
            raise ValueError("Sample larger than population or is negative")
        out = []
        for _ in range(k):
            out.append(pool.pop(RandShim._pick(len(pool))))
        return out

    @staticmethod
    def shuffle(xs: List[Any]) -> None:
        n = len(xs)
        if n <= 1:
            return
        if SCHED["mode"] is not None:
            return
        if n <= 3:
            for i in range(n - 1, 0, -1):
                j = cur().choose(i + 1, "shuf")
                xs[i], xs[j] = xs[j], xs[i]
            return
        k = cur().choose(3, "shufL")  # long lists: identity / reversal / rotation only (stated bound)
        if k == 1:
            xs.reverse()
        elif k == 2:
            xs.append(xs.pop(0))


class IndexList(list):
    """A list whose integer index may be a drawn number: counts and bounds the draws."""

    def __getitem__(self, i: Any) -> Any:
        if SCHED["mode"] is not None and not isinstance(i, slice):
            return list.__getitem__(self, _scripted_index(len(self)))
        if isinstance(i, SymNum):
            c = cur()
            c.notes["index_draws"] = c.notes.get("index_draws", 0) + 1
            if c.notes["index_draws"] > DRAW["bound"]:
                raise Budget("more index draws than the stated bound")
            i = int(c.realize(i.z))
        return list.__getitem__(self, i)


class installed:
    def __init__(self, pretty: bool, pool: int = 5):
        self.pretty = pretty
        self.pool = pool

    def __enter__(self) -> None:
        self.saved = (PR.random, PR.variables, PR.common_variables, PR._pretty_numbers)
        PR.random = RandShim  # type: ignore[assignment]
        if self.pool <= 0:  # scheduled runs use the real pools
            PR.variables = IndexList(self.saved[1])
            PR.common_variables = IndexList(self.saved[2])
        else:
            PR.variables = IndexList("abfgxyz"[: self.pool])
            PR.common_variables = IndexList("xyz")
        PR.use_pretty_numbers(self.pretty)

    def __exit__(self, *a: Any) -> None:
        PR.random, PR.variables, PR.common_variables, pretty = self.saved
        PR.use_pretty_numbers(pretty)


def render(text: str, ctx: Ctx, variant: int) -> str:
    """Replace placeholders by digits: variant 0 = path model, 1 = largest magnitude / negative where feasible."""
    reg = ctx.notes.get("pnums", [])
    m = ctx.ensure_model()
    out = []
    i = 0
    while i < len(text):
        if text[i] == MARK and i + 1 < len(text):
            p = reg[ord(text[i + 1]) - 0xE100]
            v = frac_of(m.eval(p.z, model_completion=True))
            if variant == 1:
                r, m2 = ctx.query(p.z < 0)
                if r == "sat":
                    v = frac_of(m2.eval(p.z, model_completion=True))
                else:
                    r, m2 = ctx.query(p.z >= 10)
                    if r == "sat":
                        v = frac_of(m2.eval(p.z, model_completion=True))
            out.append(str(int(v)) if v.denominator == 1 else repr(float(v)))
            i += 2
        else:
            out.append(text[i])
            i += 1
    return "".join(out)


GENERATORS: Dict[str, Any] = {}
PER_CONFIG = {"s": 8.0}


def gen(name: str):
    def deco(f: Any) -> Any:
        GENERATORS[name] = f
        return f
    return deco


LIKE_PROMISE = {"gen_combine_terms_in_place", "gen_commute_haystack", "gen_move_around_blockers_one",
                "gen_move_around_blockers_two", "gen_simplify_multiple_terms"}


def check_problem(name: str, out: Any, ctx: Optional[Ctx], texts: List[str], kwargs: Optional[Dict[str, Any]] = None) -> List[Tuple[str, str]]:
    problems: List[Tuple[str, str]] = []
    if not (isinstance(out, tuple) and len(out) == 2):
        return [("bad-result", f"{name} returned {type(out).__name__}")]
    complexity = out[1]
    try:
        ok = bool(complexity > 0)
    except Exception:
        ok = False
    if not ok:
        problems.append(("complexity", f"{name} returned complexity {complexity!r}"))
    for text in texts:
        try:
            tree = ExpressionParser().parse(text)
        except Exception as e:
            problems.append(("unparseable", f"{name} produced '{text}', which the parser rejects ({type(e).__name__})"))
            continue
        # gen_simplify_multiple_terms drops variables by design when optional_var is set (the like pair can vanish),
        # and only repeats a template when num_like_terms < num_terms (default inner_terms_scaling): the promise of
        # like terms is checked where the documentation makes it
        # ... and only between addends: `op` must be additive (op=None draws "*" as well, which joins the pair)
        kw_ = kwargs or {}
        ops_ = kw_.get("op")
        additive = ops_ in ("+", "-") or (isinstance(ops_, list) and bool(ops_) and all(o in ("+", "-") for o in ops_))
        conditional = name == "gen_simplify_multiple_terms" and (
            kw_.get("optional_var") or kw_.get("inner_terms_scaling", 0.3) != 0.3 or not additive)
        if name in LIKE_PROMISE and not conditional:
            try:
                if not has_like_terms(tree):
                    problems.append(("no-like-terms", f"{name} produced '{text}', which has no like terms"))
            except Exception as e:
                problems.append(("like-raised", f"has_like_terms raised {type(e).__name__} on '{text}'"))
    return problems


def needed_vars(name: str, kw: Dict[str, Any]) -> int:
    """How many distinct variables the generator must draw with these parameters (from its documentation)."""
    if name == "gen_move_around_blockers_one":
        return 1 + kw["number_blockers"]
    if name == "gen_move_around_blockers_two":
        return 3 + kw["number_blockers"]
    if name in ("gen_combine_terms_in_place",):
        return kw["max_terms"] - 1
    if name == "gen_commute_haystack":
        return max(kw["max_terms"] - 2, kw["commute_blockers"]) + 1
    if name == "get_rand_vars":
        return kw["num_vars"] + len(kw.get("exclude_vars") or [])
    if name == "gen_simplify_multiple_terms":
        n = kw["num_terms"]
        return max(2, int(n * 0.3)) + min(5, max(1, n // 3))
    return 2


def run_scheduled(name: str, kwargs: Dict[str, Any], pretty: bool, mode: str, ctx: Ctx):
    """Real variable pools, scripted index draws.  'rr' (round-robin) fulfils every feasible request, so a retry
    failure under it means the request can never be fulfilled; 'first' stalls every multi-variable request, so the
    outcome must be the documented ValueError or a valid result."""
    f = getattr(PR, name)
    SCHED["mode"] = mode
    DRAW["bound"] = 10**9
    try:
        with installed(pretty, pool=0):
            try:
                out = f(**kwargs)
            except (ValueError, EnvironmentError) as e:
                msg = str(e)
                if mode == "first" and ("Unable to fulfill" in msg or "failed to generate" in msg or "out of range" in msg):
                    return "retry-exhausted", [], None
                if "out of range" in msg:
                    return "rejected", [], None
                return "raised", [("unfulfillable", f"{name}({kwargs}) raised {type(e).__name__}: {msg[:70]} although every index "
                                   f"draw was a different variable (round-robin): the request can never be fulfilled")], None
            except Exception as e:
                return "raised", [("raised", f"{name}({kwargs}) raised {type(e).__name__}: {str(e)[:80]}")], None
    finally:
        SCHED["mode"] = None
    if name == "get_rand_vars":
        probs = []
        if len(set(out)) != len(out) or len(out) != kwargs["num_vars"]:
            probs.append(("vars-not-distinct", f"get_rand_vars({kwargs}) returned {out}"))
        if any(v in (kwargs.get("exclude_vars") or []) for v in out):
            probs.append(("vars-excluded", f"get_rand_vars({kwargs}) returned an excluded variable: {out}"))
        return "ok", probs, out
    text = out[0]
    texts = [render(text, ctx, 0)]
    return "ok", check_problem(name, out, ctx, texts, kwargs), texts


def run_generator(name: str, kwargs: Dict[str, Any], pretty: bool, ctx: Ctx):
    if kwargs.get("__schedule"):
        kw = {k: v for k, v in kwargs.items() if k != "__schedule"}
        return run_scheduled(name, kw, pretty, kwargs["__schedule"], ctx)
    f = getattr(PR, name)
    need = needed_vars(name, kwargs)
    DRAW["bound"] = need + 2 + (kwargs.get("num_terms", 0) if isinstance(kwargs.get("op"), list) else 0)
    with installed(pretty, pool=min(7, need + 1) if not kwargs.get("common_variables") or name != "get_rand_vars" else 7):
        infeasible = False
        if name == "get_rand_vars":
            pool = list(PR.common_variables if kwargs.get("common_variables") else PR.variables)
            infeasible = kwargs["num_vars"] > len([v for v in pool if v not in (kwargs.get("exclude_vars") or [])])
        try:
            out = f(**kwargs)
            if infeasible:
                return "ok", [("vars-impossible", f"get_rand_vars({kwargs}) returned {out} although fewer eligible variables exist")], out
        except (ValueError, EnvironmentError) as e:
            msg = str(e)
            draws = ctx.notes.get("index_draws", 0)
            if infeasible:
                return "rejected", [], None
            if ("Unable to fulfill" in msg or "failed to generate" in msg) and draws >= 6:
                return "retry-exhausted", [], None
            return "raised", [("raised", f"{name}({kwargs}) raised {type(e).__name__}: {msg[:80]} after {draws} index draws")], None
        except Exception as e:
            return "raised", [("raised", f"{name}({kwargs}) raised {type(e).__name__}: {str(e)[:80]}")], None
    if name == "get_rand_vars":
        probs = []
        if len(set(out)) != len(out) or len(out) != kwargs["num_vars"]:
            probs.append(("vars-not-distinct", f"get_rand_vars({kwargs}) returned {out}"))
        if any(v in (kwargs.get("exclude_vars") or []) for v in out):
            probs.append(("vars-excluded", f"get_rand_vars({kwargs}) returned an excluded variable: {out}"))
        return "ok", probs, out
    if name == "split_in_two_random":
        lo, hi = out
        probs = []
        if lo + hi != kwargs["value"] or lo > hi or lo < 0:
            probs.append(("split", f"split_in_two_random({kwargs['value']}) returned {out}"))
        return "ok", probs, out
    text = out[0]
    texts = [render(text, ctx, 0)]
    alt = render(text, ctx, 1)
    if alt != texts[0]:
        texts.append(alt)
    return "ok", check_problem(name, out, ctx, texts, kwargs), texts


def concrete_replay(name: str, kwargs: Dict[str, Any], pretty: bool, script: List[Any]) -> List[Tuple[str, str]]:
    """Replay with the real `random` replaced only by the scripted draws of the failing path."""
    return []


def configs(tier: str) -> List[Tuple[str, Dict[str, Any], bool]]:
    out: List[Tuple[str, Dict[str, Any], bool]] = []
    prettys = [True, False]
    for pretty in prettys:
        for nb in ([1] if tier == "quick" else [1, 2, 3]):
            for pp in (0.5,):
                out.append(("gen_move_around_blockers_one", {"number_blockers": nb, "powers_probability": pp}, pretty))
        out.append(("gen_move_around_blockers_two", {"number_blockers": 1, "powers_probability": 0.5}, pretty))
        for easy in (True, False):
            for powers in (False, True):
                out.append(("gen_combine_terms_in_place", {"min_terms": 3, "max_terms": 3 if tier == "quick" else 4,
                                                           "easy": easy, "powers": powers}, pretty))
                out.append(("gen_commute_haystack", {"min_terms": 3, "max_terms": 3 if tier == "quick" else 4,
                                                     "commute_blockers": 1, "easy": easy, "powers": powers}, pretty))
        for simple in (True, False):
            for like in (1.0, 0.0):
                kw = {"min_vars": 1, "max_vars": 2, "simple_variables": simple, "powers_probability": 0.5,
                      "like_variables_probability": like}
                out.append(("gen_binomial_times_binomial", dict(kw), pretty))
                out.append(("gen_binomial_times_monomial", dict(kw), pretty))
        for nt in ([2, 3] if tier == "quick" else [2, 3, 4, 5]):
            for opt in (False, True):
                for op in (None, "+", ["+", "-"]):
                    out.append(("gen_simplify_multiple_terms", {"num_terms": nt, "optional_var": opt, "op": op,
                                                                "common_variables": True}, pretty))
    for nv in (1, 2, 3):
        for excl in (None, ["x"], ["x", "y"]):
            for common in (False, True):
                out.append(("get_rand_vars", {"num_vars": nv, "exclude_vars": excl, "common_variables": common}, True))
    for v in range(0, 9 if tier == "quick" else 51):
        out.append(("split_in_two_random", {"value": v}, True))
    # scheduled runs with the real pools and the DEFAULT parameters (capacity of the variable pools, stalled sampling)
    for mode in ("rr", "first"):
        S = {"__schedule": mode}
        for g in ("gen_binomial_times_binomial", "gen_binomial_times_monomial", "gen_combine_terms_in_place", "gen_commute_haystack"):
            out.append((g, dict(S), True))
        for nt in (2, 3, 6, 10, 16):
            out.append(("gen_simplify_multiple_terms", dict(S, num_terms=nt), True))
        for nb in (1, 2, 3, 8):
            out.append(("gen_move_around_blockers_one", dict(S, number_blockers=nb), True))
            out.append(("gen_move_around_blockers_two", dict(S, number_blockers=nb), True))
        for nv, excl in ((1, None), (1, ["a"]), (2, ["a"]), (5, ["a", "b"]), (20, ["x"]), (23, ["x"]), (24, None), (22, ["x", "y"]),
                         (2, ["x"]), (3, ["x", "y"])):
            out.append(("get_rand_vars", dict(S, num_vars=nv, exclude_vars=excl), True))
        out.append(("get_rand_vars", dict(S, num_vars=2, exclude_vars=["x"], common_variables=True), True))
        out.append(("get_rand_vars", dict(S, num_vars=1, exclude_vars=["x"], common_variables=True), True))
    return out


def worker(item: Tuple[str, Dict[str, Any], bool]) -> Dict[str, Any]:
    name, kwargs, pretty = item
    st = Stats()
    part: Dict[str, Any] = {"stats": st, "cases": 1, "nontrivial": 0, "proved": 0, "queries": 0, "inconclusive": 0,
                            "violations": [], "samples": [], "reach": {}, "inconclusive_samples": [],
                            "engine_mismatch": 0, "mismatch_samples": [], "validated": 0, "skipped": 0}
    label = f"{name}({kwargs}) pretty={pretty}"
    import time as _t

    results = explore(lambda ctx: run_generator(name, kwargs, pretty, ctx), st, max_paths=60000,
                      deadline=_t.time() + PER_CONFIG["s"], order="bfs")
    cut = 0
    for r in results:
        if r.status == "budget":
            cut += 1
            continue
        if r.status != "ok":
            part["inconclusive"] += 1
            if len(part["inconclusive_samples"]) < 3:
                part["inconclusive_samples"].append(f"{label}: {r.status} {r.detail}")
            continue
        status, problems, shown = r.value
        part["nontrivial"] += 1
        part["queries"] += 1
        part["reach"][status] = part["reach"].get(status, 0) + 1
        if not problems:
            part["proved"] += 1
            if len(part["samples"]) < 1 and shown:
                part["samples"].append({"generator": label, "output": shown})
            continue
        lab, msg = problems[0]
        part["violations"].append(Violation("C17", f"{name}:{lab}", {"generator": name, "fault": lab}, msg,
                                            {"kind": "problem", "generator": name, "kwargs": kwargs, "pretty": pretty,
                                             "prefix": _prefix_json(r.prefix), "observed": msg}))
    part["reach"][name] = 1
    if cut:
        part["draw_bound_cut"] = cut
    uniq = {}
    for v in part["violations"]:
        uniq.setdefault(v.ident(), v)
    part["violations"] = list(uniq.values())
    return part


def _prefix_json(prefix: list) -> list:
    return [d if isinstance(d, bool) else [d[0], str(d[1])] for d in prefix]


def replay_record(rec: Dict[str, Any]) -> Tuple[bool, str]:
    from ..symx import solver

    prefix = [d if isinstance(d, bool) else (d[0], Fraction(d[1])) for d in rec["prefix"]]
    s = solver()
    s.push()
    c = Ctx(s, prefix, Stats())
    Ctx.cur = c
    try:
        status, problems, shown = run_generator(rec["generator"], rec["kwargs"], rec["pretty"], c)
    finally:
        Ctx.cur = None
        s.pop()
    return bool(problems), "; ".join(p[1] for p in problems)


def run(tier: str) -> int:
    rep = Report("C17", tier)
    items = configs(tier)
    rep.bounds = {"generators": sorted({n for n, _, _ in items}), "configurations": len(items),
                  "variable_pools": "problems.variables shrunk to (distinct variables needed + 1) letters, common_variables xyz",
                  "index_draws": "paths with more than (distinct variables needed + 2) variable/choice index draws are cut "
                                 "(counted as draw_bound_cut); per configuration the exploration is breadth-first under a time "
                                 f"budget of {PER_CONFIG['s']} s (remaining prefixes counted as budget)",
                  "random.random()": f"concretised to {RANDOM_REPS}", "shuffle": "full Fisher-Yates up to 3 elements; identity / "
                  "reversal / rotation beyond", "numbers": "drawn integers stay solver variables inside the text (placeholders) and "
                  "are rendered from two path models (default; negative or >= 10 where feasible)", "pretty_modes": [True, False]}
    rep.functions = ["problems.gen_*", "get_rand_vars", "split_in_two_random", "rand_number/rand_bool/rand_var/maybe_number/"
                     "maybe_power/rand_op/truncate/get_blocker", "ExpressionParser.parse on the result", "util.has_like_terms"]
    rep.stubs = ["random.randint/randrange: fresh integer solver variable in the documented range",
                 "random.sample: k solver-enumerated picks without replacement",
                 "random.uniform: fresh real in range; random.random: 6 representatives", "random.choice/shuffle: solver-enumerated picks"]
    rep.explanation = (
        "The generators run with every draw from `random` replaced by a solver variable or a solver-enumerated pick, so each "
        "path is one class of draw sequences and all classes inside the bounds are explored: a superset of all seeds (the "
        "PRNG itself is not modelled). Assertions per path: text accepted by the real parser (rendered from two models of "
        "the path), complexity > 0, has_like_terms where promised, distinct variables respecting exclusions, two-way splits "
        "sum to their input. Retry exhaustion after >= 6 rejected draws is the documented outcome of the retry bound and is "
        "counted, not judged.")
    rep.assumptions = ["a violation is re-run from its decision prefix on fresh objects (the draws are the input; there is no "
                       "separate concrete replay with a real seed)", "numeric values inside the text are sampled per path, "
                       "the structure of the text is exhaustive"]
    PER_CONFIG["s"] = 8.0 if tier == "quick" else 150.0
    _random.Random(seed()).shuffle(items)
    for status, item, res in pmap(worker, items, budget_s=420 if tier == "quick" else 720, chunk=1,
                                  item_timeout=PER_CONFIG["s"] * 2 + 120):
        if status == "ok":
            if "draw_bound_cut" in res:
                rep.extra["draw_bound_cut"] = rep.extra.get("draw_bound_cut", 0) + res["draw_bound_cut"]
            rep.absorb(res)
        elif status == "skipped":
            rep.skipped += 1
        elif status == "crashed":
            rep.inconclusive += 1
        else:
            rep.harness_errors.append(f"{item!r}: {res}")
    return rep.finish(required_reach=sorted({n for n, _, _ in items}))
