"""C16: term analysis is order-invariant and inverse to term construction."""
from __future__ import annotations

import itertools
import random
from fractions import Fraction
from typing import Any, Dict, List, Optional, Tuple

import z3

from mathy_core import expressions as E
from mathy_core import util as U
from mathy_core.parser import ExpressionParser

from .. import shims
from ..core import Report, Violation, collect, out_of_time, pmap, seed
from ..rulekit import skel_json, skel_unjson
from ..symx import Ctx, Stats, SymNum, Unsupported, RV, explore, frac_of
from ..trees import (
    ConcreteProvider,
    OpaqueProvider,
    SymProvider,
    Touched,
    build,
    enum_upto,
    grid_text,
    kind,
    model_payloads,
    preorder,
    renumber,
    shape,
    sk_size,
    sk_str,
    slot_roles,
    use_grid,
)
from ..zeval import Undefined, powr_axioms, var, zeval
from . import value as V

Problem = Tuple[str, str]
LIKE_EXP = {"range": (0, 2)}

# ------------------------------------------------------------------------------------------------
# (a) has_like_terms: invariant under order and grouping of the added terms
# ------------------------------------------------------------------------------------------------

FORMS = {
    "c": lambda v, w: ("const", 0),
    "v": lambda v, w: ("var", v),
    "cv": lambda v, w: ("mul", ("const", 0), ("var", v)),
    "v^e": lambda v, w: ("pow", ("var", v), ("const", 0)),
    "cv^e": lambda v, w: ("mul", ("const", 0), ("pow", ("var", v), ("const", 1))),
    "-v": lambda v, w: ("neg", ("var", v)),
    "-v^e": lambda v, w: ("neg", ("pow", ("var", v), ("const", 0))),
    "vw": lambda v, w: ("mul", ("var", v), ("var", w)),
    "cvw": lambda v, w: ("mul", ("const", 0), ("mul", ("var", v), ("var", w))),
}


def term_library() -> List[Tuple[str, Any]]:
    out = []
    for name, f in FORMS.items():
        if "w" in name:
            out.append((f"{name}[x,y]", f("x", "y")))
            out.append((f"{name}[y,x]", f("y", "x")))
        elif "v" in name:
            out.append((f"{name}[x]", f("x", None)))
            out.append((f"{name}[y]", f("y", None)))
        else:
            out.append((name, f(None, None)))
    return out


def groupings(items: List[Any]) -> List[Any]:
    """Every binary addition tree over the sequence (order kept)."""
    if len(items) == 1:
        return [items[0]]
    out = []
    for i in range(1, len(items)):
        for l in groupings(items[:i]):
            for r in groupings(items[i:]):
                out.append(("add", l, r))
    return out


def arrangements(terms: List[Any]) -> List[Any]:
    seen = set()
    out = []
    for perm in itertools.permutations(range(len(terms))):
        for g in groupings([("slot", i) for i in perm]):
            if g not in seen:
                seen.add(g)
                out.append(g)
    return out


def instantiate(arr: Any, trees: List[Any]) -> Any:
    """Fresh nodes for every arrangement (payload objects shared, so all arrangements see the same values)."""
    if arr[0] == "slot":
        return trees[arr[1]]()
    return E.AddExpression(instantiate(arr[1], trees), instantiate(arr[2], trees))


def like_check(term_sks: List[Any], prov_factory: Any, info: Dict[str, Any]) -> List[Problem]:
    # one payload provider per term, built once so that every arrangement carries the same payload objects
    payloads: List[Dict[int, Any]] = []
    for i, sk in enumerate(term_sks):
        prov = prov_factory(i)
        roles = slot_roles(sk)
        payloads.append({s: prov.get(s, roles[s]) for s in sorted(roles)})
    makers = [lambda i=i, sk=sk: build(sk, ConcreteProvider(payloads[i])) for i, sk in enumerate(term_sks)]
    answers = []
    for arr in arrangements(term_sks):
        tree = instantiate(arr, makers)
        try:
            answers.append((bool(U.has_like_terms(tree)), arr, None))
        except Exception as e:
            answers.append((None, arr, type(e).__name__))
    info["arrangements"] = len(answers)
    raised = [a for a in answers if a[0] is None]
    if raised:
        return [("like-raised", f"has_like_terms raised {raised[0][2]} on arrangement {raised[0][1]}")]
    vals = {a[0] for a in answers}
    if len(vals) > 1:
        t = next(a for a in answers if a[0])
        f = next(a for a in answers if not a[0])
        return [("order-dependent", f"has_like_terms is True for arrangement {t[1]} and False for {f[1]} of the same terms")]
    return []


# ------------------------------------------------------------------------------------------------
# (b) terms_are_like reflexive and symmetric
# ------------------------------------------------------------------------------------------------


def like_pair_check(ska: Any, skb: Any, prov_a: Any, prov_b: Any, info: Dict[str, Any]) -> List[Problem]:
    a, b = build(ska, prov_a), build(skb, prov_b)
    problems: List[Problem] = []

    def call(x: Any, y: Any) -> Any:
        try:
            return bool(U.terms_are_like(x, y))
        except Exception as e:
            return f"raised {type(e).__name__}"

    ab, ba = call(a, b), call(b, a)
    if ab != ba:
        problems.append(("asymmetric", f"terms_are_like({shape(a)}, {shape(b)}) is {ab} but the converse is {ba}"))
    for t in (a, b):
        if U.get_term(t) is not False:
            r = call(t, t)
            if r is not True:
                problems.append(("irreflexive", f"terms_are_like({shape(t)}, itself) is {r}"))
    return problems


# ------------------------------------------------------------------------------------------------
# (c) extraction from parsed text, (d) construction
# ------------------------------------------------------------------------------------------------

C_POOL = ["4", "1", "0", "12", "0.5", "1.5", "1000000", "7.25", "-3", "-1", "-0.25"]
E_POOL = ["2", "7", "0", "1", "12", "0.5", "-2", "-1"]
V_POOL = ["x", "y", "q"]
TEXT_FORMS = ["cve", "cv", "ve", "v", "c", "-v", "-ve"]


def num(text: str) -> Any:
    return float(text) if "." in text else int(text)


def extract_check(form: str, ci: int, vi: int, ei: int) -> List[Problem]:
    c, v, e = C_POOL[ci], V_POOL[vi], E_POOL[ei]
    if form == "cve":
        text, want = f"{c}{v}^{e}", (num(c), v, num(e))
    elif form == "cv":
        text, want = f"{c}{v}", (num(c), v, None)
    elif form == "ve":
        text, want = f"{v}^{e}", (None, v, num(e))
    elif form == "v":
        text, want = v, (None, v, None)
    elif form == "c":
        text, want = c, (num(c), None, None)
    elif form == "-v":
        text, want = f"-{v}", (-1, v, None)
    else:
        text, want = f"-{v}^{e}", (-1, v, num(e))
    try:
        got = U.get_term_ex(ExpressionParser().parse(text))
    except Exception as ex:
        return [("extract-raised", f"get_term_ex(parse({text!r})) raised {type(ex).__name__}")]
    if got is None or tuple(got) != want or [type(x) for x in got] != [type(x) for x in want]:
        return [("extract", f"get_term_ex(parse({text!r})) returned {tuple(got) if got is not None else None}, written {want}")]
    return []


def make_check(has_c: bool, has_v: bool, has_e: bool, prov: Any, ctx: Optional[Ctx], info: Dict[str, Any]) -> List[Problem]:
    c = prov.get(0, "coef") if has_c else None
    e = prov.get(1, "exp") if has_e else None
    v = "x" if has_v else None
    args: Dict[str, Any] = {}
    if has_c:
        args["coefficient"] = c
    try:
        t = U.make_term(variable=v, exponent=e, **args)
    except Exception as ex:
        return [("make-raised", f"make_term raised {type(ex).__name__}")]
    problems: List[Problem] = []
    cz = SymNum.lift(c)[0] if has_c else z3.RealVal(1)
    # value: coefficient * variable^exponent
    want_tree = E.ConstantExpression(c if has_c else 1)
    if has_v:
        base: Any = E.VariableExpression("x")
        if has_e:
            base = E.PowerExpression(base, E.ConstantExpression(e))
        want_tree = E.MultiplyExpression(want_tree, base)
    try:
        d1: List[Any] = []
        d2: List[Any] = []
        a, b = zeval(t, d1, ctx), zeval(want_tree, d2, ctx)
        if ctx is not None:
            r, m = ctx.query(*(d1 + d2 + powr_axioms(a, b)), a != b)
            if r == "sat":
                problems.append(("make-value", f"make_term({'c' if has_c else ''},{v},{'e' if has_e else ''}) = {shape(t)} does not "
                                 "denote coefficient * variable^exponent"))
        else:
            from ..zeval import ceval, close

            for x in (Fraction(3, 2), Fraction(-2)):
                va, vb = ceval(t, {"x": x}), ceval(want_tree, {"x": x})
                if va is not None and vb is not None and not close(va, vb):
                    problems.append(("make-value", f"make_term({c},{v},{e}) = '{V.safe_str(t)}' is {float(va)} at x={x}, "
                                     f"coefficient * variable^exponent is {float(vb)}"))
                    break
    except Undefined:
        pass
    # decomposition gives the triple back (an omitted coefficient stands for 1)
    try:
        got = U.get_term_ex(t)
    except Exception as ex:
        return problems + [("decompose-raised", f"get_term_ex(make_term(...)) raised {type(ex).__name__}")]
    if got is None:
        return problems + [("decompose", f"get_term_ex cannot read back make_term's result {shape(t)}")]
    gc = got.coefficient if got.coefficient is not None else 1
    wc = c if has_c else 1
    ok_c = bool(gc == wc)
    ok_v = got.variable == v
    ok_e = (got.exponent is None and not has_e) or (has_e and got.exponent is not None and bool(got.exponent == e))
    if not (ok_c and ok_v and ok_e):
        problems.append(("decompose", f"make_term({'c' if has_c else '-'},{v},{'e' if has_e else '-'}) = {shape(t)} decomposes "
                         f"to a different triple (coefficient ok: {ok_c}, variable ok: {ok_v}, exponent ok: {ok_e})"))
    return problems


# ------------------------------------------------------------------------------------------------
# (e) factor table, (f) predicates never raise
# ------------------------------------------------------------------------------------------------


def factor_check(n: Any) -> List[Problem]:
    try:
        table = U.factor(n)
    except Exception as ex:
        return [("factor-raised", f"factor({int(n)}) raised {type(ex).__name__}")]
    n = int(n)
    want = sorted((d, n // d) for d in range(1, n + 1) if n % d == 0)
    got = sorted((Fraction(k), Fraction(v)) for k, v in table.items())
    if got != [(Fraction(a), Fraction(b)) for a, b in want]:
        return [("factor", f"factor({n}) = {dict(table)}; divisor pairs are {want}")]
    return []


PREDICATES = ["get_sub_terms", "is_simple_term", "is_preferred_term_form", "has_like_terms", "get_term", "get_term_ex", "get_terms"]


def noraise_check(sk: Any, prov: Any, info: Dict[str, Any]) -> List[Problem]:
    problems: List[Problem] = []
    for name in PREDICATES:
        tree = build(sk, prov)
        for node in preorder(tree):
            try:
                getattr(U, name)(node)
            except Exception as ex:
                problems.append(("predicate-raised", f"{name} raised {type(ex).__name__} on node {shape(node)} of {shape(tree)}"))
                break
    return problems


# ------------------------------------------------------------------------------------------------
# driver
# ------------------------------------------------------------------------------------------------


class OffsetProvider:
    """Gives each term of a sum its own block of payload symbols."""

    def __init__(self, inner: Any, prefix: str):
        self.inner = inner
        self.prefix = prefix

    def get(self, slot: int, role: str) -> Any:
        return self.inner.get(slot, role)


def sym_like(term_sks: List[Any], ctx: Ctx, mode: str):
    provs = [SymProvider(ctx, mode, prefix=f"t{i}_", exp_range=LIKE_EXP["range"]) for i in range(len(term_sks))]
    info: Dict[str, Any] = {}
    with shims.installed():
        probs = like_check(term_sks, lambda i: provs[i], info)
    pay = None
    if probs:
        m = ctx.ensure_model()
        pay = [model_payloads(m, p) for p in provs]
    return probs, pay, info


def worker(item: Any) -> Dict[str, Any]:
    what = item[0]
    part = V.new_part()
    part["cases"] = 1
    st: Stats = part["stats"]
    results: List[Any] = []
    replay_fn = None
    label = ""

    if what == "like":
        term_sks = [renumber(t) for t in item[1]]
        if len(item) > 2:
            LIKE_EXP["range"] = item[2]
        label = "has_like_terms on " + " + ".join(sk_str(t) for t in term_sks)
        mode = "real"
        results = explore(lambda ctx: sym_like(term_sks, ctx, "real"), st, max_paths=6000)
        if any(r.status == "needs_bound" for r in results):
            results = explore(lambda ctx: sym_like(term_sks, ctx, "grid"), st, max_paths=6000)

        def replay_fn(pay: Any) -> List[Problem]:
            return like_check(term_sks, lambda i: ConcreteProvider(pay[i]), {})
        rec = {"kind": "terms", "check": "like", "terms": [skel_json(t) for t in term_sks]}
    elif what == "pair":
        ska, skb = item[1], item[2]
        label = f"terms_are_like on {sk_str(ska)} / {sk_str(skb)}"

        def h(ctx: Ctx) -> Any:
            pa, pb = SymProvider(ctx, "real", prefix="a"), SymProvider(ctx, "real", prefix="b")
            info: Dict[str, Any] = {}
            with shims.installed():
                probs = like_pair_check(ska, skb, pa, pb, info)
            pay = None
            if probs:
                m = ctx.ensure_model()
                pay = [model_payloads(m, pa), model_payloads(m, pb)]
            return probs, pay, info

        results = explore(h, st, max_paths=4000)

        def replay_fn(pay: Any) -> List[Problem]:
            return like_pair_check(ska, skb, ConcreteProvider(pay[0]), ConcreteProvider(pay[1]), {})
        rec = {"kind": "terms", "check": "pair", "a": skel_json(ska), "b": skel_json(skb)}
    elif what == "extract":
        form = item[1]
        label = f"get_term_ex(parse(<{form}>))"

        def h(ctx: Ctx) -> Any:
            ci = ctx.choose(len(C_POOL), "c") if "c" in form else 0
            vi = ctx.choose(len(V_POOL), "v") if "v" in form else 0
            ei = ctx.choose(len(E_POOL), "e") if "e" in form else 0
            return extract_check(form, ci, vi, ei), (ci, vi, ei), {}

        results = explore(h, st)

        def replay_fn(pay: Any) -> List[Problem]:
            return extract_check(form, *pay)
        rec = {"kind": "terms", "check": "extract", "form": form}
    elif what == "make":
        has_c, has_v, has_e = item[1]
        label = f"make_term(c={has_c}, v={has_v}, e={has_e})"

        def h(ctx: Ctx) -> Any:
            prov = SymProvider(ctx, "real", prefix="m")
            info: Dict[str, Any] = {}
            with shims.installed():
                probs = make_check(has_c, has_v, has_e, prov, ctx, info)
            pay = model_payloads(ctx.ensure_model(), prov) if probs else None
            return probs, pay, info

        results = explore(h, st)

        def replay_fn(pay: Any) -> List[Problem]:
            return make_check(has_c, has_v, has_e, ConcreteProvider({0: pay.get(0, 1), 1: pay.get(1, 2)}), None, {})
        rec = {"kind": "terms", "check": "make", "flags": [has_c, has_v, has_e]}
    elif what == "factor":
        lo, hi = item[1], item[2]
        label = f"factor(n), {lo} <= n <= {hi}"

        def h(ctx: Ctx) -> Any:
            z = z3.Int("n")
            ctx.add(z3.And(z >= lo, z <= hi))
            n = SymNum(z3.ToReal(z), True)
            with shims.installed():
                nn = n.concrete()  # the dict inside factor() would realise it anyway: solver-driven enumeration
                return factor_check(nn), nn, {}

        results = explore(h, st, max_paths=100000)

        def replay_fn(pay: Any) -> List[Problem]:
            return factor_check(pay)
        rec = {"kind": "terms", "check": "factor"}
    else:
        sk = item[1]
        label = f"term predicates on {sk_str(sk)}"
        try:
            probs0 = noraise_check(sk, OpaqueProvider(), {})
            roles = slot_roles(sk)
            results = [type("R", (), {"status": "ok", "value": (probs0, {s: (2 if roles[s] != "coef" else 3) for s in roles}, {}),
                                      "detail": ""})()]
            st.paths += 1
        except Touched:
            def h(ctx: Ctx) -> Any:
                prov = SymProvider(ctx, "grid", prefix="p")
                with shims.installed():
                    probs = noraise_check(sk, prov, {})
                pay = model_payloads(ctx.ensure_model(), prov) if probs else None
                return probs, pay, {}

            results = explore(h, st, max_paths=3000)

        def replay_fn(pay: Any) -> List[Problem]:
            return noraise_check(sk, ConcreteProvider(pay), {})
        rec = {"kind": "terms", "check": "noraise", "skeleton": skel_json(sk)}

    part["nontrivial"] = 1
    for r in results:
        if r.status != "ok":
            part["inconclusive"] += 1
            if len(part["inconclusive_samples"]) < 3:
                part["inconclusive_samples"].append(f"{label}: {r.status} {r.detail}")
            continue
        probs, pay, info = r.value
        part["queries"] += 1
        if not probs:
            part["proved"] += 1
            continue
        again = replay_fn(pay)
        hit = [p for p in again if p[0] in {q[0] for q in probs}]
        if hit:
            part["violations"].append(Violation("C16", hit[0][0], {"fault": hit[0][0], "check": what}, f"{label}: {hit[0][1]}",
                                                dict(rec, payloads=_jsonable(pay), observed=hit[0][1])))
        else:
            part["engine_mismatch"] += 1
            part["mismatch_samples"].append(f"{label} {pay}: {probs[0][1][:160]}")
    part["samples"].append({"check": label, "paths": len(results)})
    part["reach"][what] = 1
    uniq = {}
    for v in part["violations"]:
        uniq.setdefault(v.ident(), v)
    part["violations"] = list(uniq.values())
    return part


def _jsonable(pay: Any) -> Any:
    if isinstance(pay, dict):
        return {str(k): v for k, v in pay.items()}
    if isinstance(pay, (list, tuple)):
        return [_jsonable(p) for p in pay]
    return pay


def replay_record(rec: Dict[str, Any]) -> Tuple[bool, str]:
    c = rec["check"]
    pay = rec["payloads"]

    def ints(d: Any) -> Dict[int, Any]:
        return {int(k): v for k, v in d.items()}

    if c == "like":
        sks = [skel_unjson(t) for t in rec["terms"]]
        probs = like_check(sks, lambda i: ConcreteProvider(ints(pay[i])), {})
    elif c == "pair":
        probs = like_pair_check(skel_unjson(rec["a"]), skel_unjson(rec["b"]), ConcreteProvider(ints(pay[0])), ConcreteProvider(ints(pay[1])), {})
    elif c == "extract":
        probs = extract_check(rec["form"], *pay)
    elif c == "make":
        p = ints(pay)
        probs = make_check(*rec["flags"], ConcreteProvider({0: p.get(0, 1), 1: p.get(1, 2)}), None, {})
    elif c == "factor":
        probs = factor_check(pay)
    else:
        probs = noraise_check(skel_unjson(rec["skeleton"]), ConcreteProvider(ints(pay)), {})
    return bool(probs), "; ".join(p[1] for p in probs)


def run(tier: str) -> int:
    rep = Report("C16", tier)
    use_grid("quick" if tier == "quick" else "full")
    lib = term_library()
    LIKE_EXP["range"] = (0, 2) if tier == "quick" else (-2, 4)
    t = 3  # 4-term multisets (120 arrangements per path) do not finish inside any reasonable budget; the thorough tier
    #        widens the exponent range instead
    items: List[Any] = []
    for k in range(2, t + 1):
        combos = list(itertools.combinations_with_replacement(range(len(lib)), k))
        if k == 4:
            # sized to finish: one 4-term multiset has 120 arrangements per path; exponents 0..2 there
            random.Random(seed()).shuffle(combos)
            combos = combos[:200]
        for combo in combos:
            items.append(("like", [lib[i][1] for i in combo], LIKE_EXP["range"] if k < 4 else (0, 2)))
    pair_sks = list(enum_upto(3, binops=("add", "mul", "pow"), unops=("neg",)))
    if tier != "quick":
        pair_sks += [renumber(("mul", ("mul", ("const", 0), ("var", "x")), ("mul", ("const", 1), ("var", "x")))),
                     renumber(("add", ("var", "x"), ("var", "y")))]
    for a in pair_sks:
        for b in pair_sks:
            items.append(("pair", a, b))
    for form in TEXT_FORMS:
        items.append(("extract", form))
    for flags in [(True, True, True), (True, True, False), (False, True, True), (False, True, False), (True, False, False)]:
        items.append(("make", flags))
    nmax = 400 if tier == "quick" else 5000
    step = 25  # one item realises every n of its range: must stay below the engine's realisation cap
    for lo in range(1, nmax + 1, step):
        items.append(("factor", lo, min(nmax, lo + step - 1)))
    n = 5 if tier == "quick" else 6
    for sk in enum_upto(n, unops=("neg", "sgn", "fact")):
        items.append(("noraise", sk))
    rep.bounds = {"like_terms": f"sums of 2..{t} terms drawn from {len(lib)} term forms ({[l for l, _ in lib]}), every permutation "
                                f"and every binary grouping, coefficients unbounded reals, exponents {LIKE_EXP['range'][0]}..{LIKE_EXP['range'][1]}" + (" (4 terms: 200 sampled multisets, exponents 0..2)" if t == 4 else ""),
                  "terms_are_like": f"all ordered pairs of {len(pair_sks)} small trees",
                  "extraction": {"forms": TEXT_FORMS, "coefficients": C_POOL, "exponents": E_POOL, "variables": V_POOL},
                  "construction": "make_term with symbolic coefficient (unbounded) and exponent (-2..4), each component optional",
                  "factor": f"every n in [1, {nmax}] (enumerated by the solver)",
                  "never_raise": f"every non-equation tree with <= {n} nodes over const/x/y, + - * / ^, neg sgn fact, every node"}
    rep.functions = ["util.has_like_terms/get_terms/get_term/terms_are_like", "util.get_term_ex", "util.make_term", "util.factor",
                     "util.get_sub_terms/is_simple_term/is_preferred_term_form"]
    rep.stubs = shims.STUBS
    rep.explanation = (
        "(a) all arrangements of one multiset of terms share the same solver-variable payloads inside one path, so "
        "has_like_terms must give one answer per path; (b) terms_are_like(a,b) = terms_are_like(b,a) and reflexive on terms; "
        "(c) get_term_ex(parse(text)) returns the written triple for every pool combination (selectors); (d) z3 proves "
        "make_term(c,v,e) = c*v^e for all c, e and get_term_ex reads the triple back (an omitted coefficient is 1); "
        "(e) factor(n) is exactly the divisor-pair table; (f) the predicates raise nothing on any node of any tree.")
    rep.assumptions = ["(f) covers trees the parser and the rules can produce (one-operand nodes with the operand on the right)",
                       "(c) uses concrete numeral pools because text needs digits"]
    random.Random(seed()).shuffle(items)
    collect(rep, pmap(worker, items, budget_s=420 if tier == "quick" else 720, chunk=8))
    return rep.finish(required_reach=["like", "pair", "extract", "make", "factor", "noraise"])
