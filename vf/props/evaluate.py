"""C05: evaluation computes the mathematically correct number (exact-arithmetic clauses).

The real MathExpression.evaluate runs on trees whose constants and variable values are solver
variables with lazily decided Python types (int / float); results are compared by z3 validity with an
independent exact evaluator.  The 'within a few ulps' IEEE clause is NOT claimed: floats are modelled
as exact reals (stated in DESIGN.md and in the evidence).
"""
from __future__ import annotations

import math
import random
from fractions import Fraction
from typing import Any, Dict, List, Optional, Tuple

import z3

from .. import shims
from ..core import Report, Violation, collect, out_of_time, pmap, seed
from ..rulekit import skel_json, skel_unjson
from ..symx import Ctx, Stats, SymNum, Unsupported, RV, explore, frac_of
from ..trees import (
    ConcreteProvider,
    SymProvider,
    build,
    enum_upto,
    kind,
    model_payloads,
    preorder,
    renumber,
    shape,
    sk_size,
    sk_str,
    slot_roles,
    variables_of,
)
from ..zeval import Undefined, ceval, close, powr_axioms, uses_uf, var, zeval, zeval_top
from . import value as V

ABSENT, NONE, VALUE = 0, 1, 2


def sym_value(ctx: Ctx, name: str, mode: str) -> SymNum:
    z = var(name)
    tag = z3.Bool(f"v_{name}_isint")
    ctx.add(z3.Implies(tag, z3.IsInt(z)))
    if mode != "real":
        from ..trees import ACTIVE

        ctx.add(z3.Or([z == RV(g) for g in ACTIVE["grid"]]))
    return SymNum(z, tag)


def nonfinite(v: Any) -> bool:
    return isinstance(v, float) and not isinstance(v, SymNum) and (v != v or v in (float("inf"), float("-inf")))


def _float_twin(v: Any) -> Any:
    if type(v) is SymNum or isinstance(v, SymNum):
        return SymNum(v.z, False)
    if isinstance(v, bool) or v is None:
        return v
    if isinstance(v, int):
        try:
            return float(v)
        except OverflowError:
            return v
    return v


def earlier_evaluation(tree: Any, context: Optional[Dict[str, Any]]) -> None:
    """History: the same expression was evaluated before with float operands of (nearly) equal value - on a copy of the
    tree, result and exceptions ignored.  Evaluation has no memory, so this must not change the evaluation under test."""
    try:
        twin = tree.clone()
        for n in preorder(twin):
            if kind(n) == "const":
                n.value = _float_twin(n.value)
        ctx2 = None if context is None else {k: _float_twin(v) for k, v in context.items()}
        twin.evaluate(ctx2)
    except Exception:
        pass


def evaluate_checked(tree: Any, context: Optional[Dict[str, Any]]):
    try:
        return "value", tree.evaluate(context)
    except ValueError as e:
        return "ValueError", str(e)[:100]
    except Exception as e:
        return "raised", f"{type(e).__name__}: {str(e)[:80]}"


def c05_symbolic(sk: Any, mode: str, ctx: Ctx):
    prov = SymProvider(ctx, mode)
    tree = build(sk, prov)
    names = variables_of(tree)
    states = {n: ctx.choose(3, f"st_{n}_") for n in names}
    use_ctx = True
    context: Optional[Dict[str, Any]] = {}
    for n in names:
        if states[n] == VALUE:
            context[n] = sym_value(ctx, n, mode)
        elif states[n] == NONE:
            context[n] = None
    if not names and ctx.choose(2, "noctx") == 1:
        context = None
    missing = [n for n in names if states[n] != VALUE]
    with shims.installed():
        earlier_evaluation(tree, context)
        out = evaluate_checked(tree, context)
    problems: List[Tuple[str, str]] = []
    asked = proved = 0
    model = None
    is_eq = kind(tree) == "eq"

    def ask_valid(prop: Any) -> Tuple[str, Any]:
        """valid?(axioms -> prop), asking first without the power axioms."""
        nonlocal asked, proved
        asked += 1
        r, m = ctx.valid(prop)
        if r == "cex" and AX[0]:
            r, m = ctx.valid(z3.Implies(z3.And(AX[0]), prop))
        if r == "valid":
            proved += 1
        return r, m

    AX: List[Any] = [[]]

    if missing:
        if out[0] != "ValueError":
            problems.append(("missing-variable", f"variables {missing} have no value but evaluate "
                             f"{'returned' if out[0] == 'value' else 'raised ' + out[1]}"))
            model = ctx.ensure_model()
        return problems, asked, proved, model, prov, states
    # every variable has a value
    try:
        dom: List[Any] = []
        if is_eq:
            l = zeval(tree.left, dom, ctx)
            r_ = zeval(tree.right, dom, ctx)
            oracle = l
        else:
            oracle = zeval(tree, dom, ctx)
    except Undefined:
        return problems, asked, proved, model, prov, states
    domc = z3.And(dom) if dom else z3.BoolVal(True)
    ax: List[Any] = []
    AX[0] = powr_axioms(oracle)
    if out[0] == "raised":
        problems.append(("unexpected-exception", f"evaluate raised {out[1]}"))
        model = ctx.ensure_model()
    elif out[0] == "ValueError":
        if is_eq:
            # raising is right only when the sides differ (or a side is undefined)
            res, m = ask_valid(z3.Implies(z3.And(domc, *ax), l != r_))
            if res == "cex":
                problems.append(("equation-raised", "equation raised although both sides are equal"))
                model = m
        else:
            # legitimate only where the expression is undefined (e.g. factorial of a negative number)
            res, m = ask_valid(z3.Not(z3.And(domc, *ax)))
            if res == "cex":
                problems.append(("value-present-raised", f"evaluate raised ValueError ({out[1]}) although every variable "
                                 "has a value and the expression is defined"))
                model = m
    else:
        v = out[1]
        if nonfinite(v):
            res, m = ask_valid(z3.Not(z3.And(domc, *ax)))
            if res == "cex":
                problems.append(("nonfinite", f"evaluate returned {v} where the expression has a finite value"))
                model = m
            elif v == v and kind(tree) == "div":
                # +-inf from a root division: "division by zero yields NaN" - an infinity is only right when an operand
                # is itself non-finite (0 to a negative power), i.e. never where the divisor is defined and zero and the
                # dividend is defined
                rdom2: List[Any] = []
                try:
                    rz = zeval(tree.right, rdom2, ctx)
                    zeval(tree.left, rdom2, ctx)
                    r2, m2 = ctx.query(*(rdom2 + [rz == 0]))
                    asked += 1
                    if r2 == "sat":
                        problems.append(("div-by-zero", f"division by zero returned {v} instead of NaN"))
                        model = m2
                    elif r2 == "unsat":
                        proved += 1
                except Undefined:
                    pass
        else:
            lv = SymNum.lift(v)
            if lv is None:
                problems.append(("not-a-number", f"evaluate returned {type(v).__name__}"))
                model = ctx.ensure_model()
            else:
                cond = z3.Implies(z3.And(domc, *ax), lv[0] == oracle)
                if is_eq:
                    cond = z3.And(cond, z3.Implies(z3.And(domc, *ax), l == r_))
                res, m = ask_valid(cond)
                if res == "cex":
                    problems.append(("wrong-value", "evaluate returned a value different from the exact result"
                                     if not is_eq else "equation returned a value although its sides differ / a wrong value"))
                    model = m
                elif res == "unknown":
                    problems.append(("inconclusive", "solver unknown"))
                # division by zero must yield NaN: a finite result with a zero divisor at the root is wrong
                if kind(tree) == "div":
                    rdom: List[Any] = []
                    try:
                        rz = zeval(tree.right, rdom, ctx)
                        res, m = ask_valid(z3.Implies(z3.And(rdom) if rdom else z3.BoolVal(True), rz != 0))
                        if res == "cex":
                            problems.append(("div-by-zero", "division by zero returned a finite number instead of NaN"))
                            model = m
                    except Undefined:
                        pass
    return problems, asked, proved, model, prov, states


def concrete_check(sk: Any, payloads: Dict[int, Any], states: Dict[str, int], values: Dict[str, Any]) -> List[Tuple[str, str]]:
    tree = build(sk, ConcreteProvider(payloads))
    names = variables_of(tree)
    context: Dict[str, Any] = {}
    for n in names:
        if states.get(n, VALUE) == VALUE:
            context[n] = values[n]
        elif states[n] == NONE:
            context[n] = None
    missing = [n for n in names if states.get(n, VALUE) != VALUE]
    earlier_evaluation(tree, context)
    out = evaluate_checked(tree, context)
    text = f"evaluate('{V.safe_str(tree)}', {context})"
    if missing:
        if out[0] != "ValueError":
            return [("missing-variable", f"{text}: variables {missing} have no value but evaluate "
                     f"{'returned ' + str(out[1]) if out[0] == 'value' else 'raised ' + out[1]}")]
        return []
    env = {n: values[n] for n in names}
    is_eq = kind(tree) == "eq"
    try:
        if is_eq:
            l, r = ceval(tree.left, env), ceval(tree.right, env)
            both_int = isinstance(l, Fraction) and isinstance(r, Fraction) and l.denominator == 1 and r.denominator == 1
            same = (l == r) if both_int else (l is not None and r is not None and close(l, r))
            exact = l if (l is not None and r is not None and same) else None
            sides_differ = l is not None and r is not None and not same
        else:
            exact = ceval(tree, env)
            sides_differ = False
    except Unsupported:
        return []
    if out[0] == "raised":
        return [("unexpected-exception", f"{text} raised {out[1]}")]
    if out[0] == "ValueError":
        if is_eq and exact is not None:
            return [("equation-raised", f"{text} raised although both sides equal {exact}")]
        if not is_eq and exact is not None:
            return [("value-present-raised", f"{text} raised ValueError ({out[1]}); exact value {exact}")]
        return []
    v = out[1]
    if hasattr(v, "item"):
        v = v.item()
    if isinstance(v, float) and (v != v or v in (float("inf"), float("-inf"))):
        if exact is not None and abs(exact) < 10**300:
            return [("nonfinite", f"{text} returned {v}; exact value {exact}")]
        if v == v and kind(tree) == "div":
            try:
                d, nume = ceval(tree.right, env), ceval(tree.left, env)
            except Unsupported:
                d = nume = None
            if d is not None and nume is not None and d == 0:
                return [("div-by-zero", f"{text} returned {v} for a zero divisor (NaN expected)")]
        return []
    if is_eq and sides_differ:
        return [("wrong-value", f"{text} returned {v} although the sides differ ({l} vs {r})")]
    if exact is None:
        if kind(tree) == "div":
            d = ceval(tree.right, env)
            if d is not None and d == 0:
                return [("div-by-zero", f"{text} returned {v} for a zero divisor")]
        return []
    all_int = all(isinstance(x, int) and not isinstance(x, bool) for x in list(payloads.values()) + list(env.values()))
    if isinstance(v, int) or all_int and isinstance(exact, Fraction) and exact.denominator == 1 and not _has_div(tree):
        ok = Fraction(v) == exact if not isinstance(v, float) or abs(v) < 2**53 else close(v, exact)
    else:
        ok = close(v, exact, rel=1e-9)
    if not ok:
        return [("wrong-value", f"{text} returned {v!r}; exact value {exact if exact.denominator == 1 else float(exact)}")]
    return []


def _has_div(tree: Any) -> bool:
    return any(kind(n) in ("div",) or (kind(n) == "pow") for n in preorder(tree))


def worker(sk: Any) -> Dict[str, Any]:
    part = V.new_part()
    part["cases"] = 1
    st: Stats = part["stats"]
    mode = "real"
    results = explore(lambda ctx: c05_symbolic(sk, "real", ctx), st, max_paths=8000)
    if any(r.status == "needs_bound" for r in results):
        mode = "grid"
        results = explore(lambda ctx: c05_symbolic(sk, "grid", ctx), st, max_paths=12000)
    part["nontrivial"] = 1
    for r in results:
        if r.status != "ok":
            part["inconclusive"] += 1
            if len(part["inconclusive_samples"]) < 3:
                part["inconclusive_samples"].append(f"{sk_str(sk)}: {r.status} {r.detail}")
            continue
        problems, asked, proved, model, prov, states = r.value
        part["queries"] += max(1, asked)
        real = [p for p in problems if p[0] != "inconclusive"]
        if len(real) != len(problems):
            part["inconclusive"] += 1
        if not real:
            part["proved"] += max(1, proved)
            continue
        try:
            pay = model_payloads(model, prov)
            vals = {}
            for n in states:
                fv = frac_of(model.eval(var(n), model_completion=True))
                fv = fv if fv is not None else Fraction(1)
                isint = z3.is_true(model.eval(z3.Bool(f"v_{n}_isint"), model_completion=True))
                vals[n] = int(fv) if (isint and fv.denominator == 1) else float(fv)
        except Unsupported:
            part["inconclusive"] += 1
            continue
        again = concrete_check(sk, pay, states, vals)
        hit = [p for p in again if p[0] in {q[0] for q in real}]
        if hit:
            keys = {"fault": hit[0][0], "shape": shape(build(sk, ConcreteProvider(pay)))}
            part["violations"].append(Violation("C05", hit[0][0], keys, hit[0][1],
                                                {"kind": "evaluate", "skeleton": skel_json(sk), "payloads": {str(k): v for k, v in pay.items()},
                                                 "states": states, "values": vals, "observed": hit[0][1]}))
        else:
            uf = True
            part["inconclusive"] += 1
            if len(part["inconclusive_samples"]) < 3:
                part["inconclusive_samples"].append(f"{sk_str(sk, pay)} {vals}: solver model did not reproduce ({real[0][0]})")
    part["samples"].append({"skeleton": sk_str(sk), "mode": mode, "paths": len(results)})
    part["reach"]["evaluate"] = 1
    uniq = {}
    for v in part["violations"]:
        uniq.setdefault(v.ident(), v)
    part["violations"] = list(uniq.values())
    return part


def replay_record(rec: Dict[str, Any]) -> Tuple[bool, str]:
    probs = concrete_check(skel_unjson(rec["skeleton"]), {int(k): v for k, v in rec["payloads"].items()}, rec["states"], rec["values"])
    return bool(probs), "; ".join(p[1] for p in probs)


UNOPS = ("neg", "sgn", "abs", "fact")
BIG = [
    ("pow", ("const", 0), ("lit", 63)), ("pow", ("const", 0), ("lit", 64)), ("pow", ("lit", 2), ("lit", 64)),
    ("pow", ("lit", 3), ("lit", 40)), ("pow", ("var", "x"), ("lit", 64)), ("pow", ("lit", 2), ("lit", -1)),
    ("pow", ("var", "x"), ("lit", -2)), ("mul", ("pow", ("const", 0), ("lit", 33)), ("pow", ("const", 1), ("lit", 33))),
    ("fact", ("lit", 25)), ("mul", ("fact", ("lit", 21)), ("var", "x")), ("pow", ("pow", ("var", "x"), ("lit", 8)), ("lit", 9)),
    ("add", ("pow", ("lit", 10), ("lit", 30)), ("var", "x")), ("sub", ("pow", ("var", "x"), ("lit", 70)), ("pow", ("var", "x"), ("lit", 70))),
    # integers that differ by less than one ulp of a double must still compare as different
    ("eq", ("add", ("pow", ("lit", 2), ("lit", 53)), ("lit", 1)), ("pow", ("lit", 2), ("lit", 53))),
    ("eq", ("fact", ("lit", 25)), ("add", ("fact", ("lit", 25)), ("lit", 1))),
    ("eq", ("sub", ("pow", ("lit", 10), ("lit", 30)), ("lit", 1)), ("pow", ("lit", 10), ("lit", 30))),
    ("eq", ("mul", ("lit", 3), ("lit", 10**20)), ("add", ("mul", ("lit", 3), ("lit", 10**20)), ("lit", 7))),
    ("eq", ("add", ("lit", 2**53), ("var", "x")), ("add", ("lit", 2**53), ("var", "x"))),
    ("sub", ("lit", 9007199254740993), ("lit", 9007199254740992)), ("mul", ("lit", 10**17 + 1), ("lit", 10**17 - 1)),
]


def run(tier: str) -> int:
    rep = Report("C05", tier)
    n = 4
    sks = list(enum_upto(n, unops=UNOPS, variables=("x", "y")))
    five: List[Any] = []
    if tier != "quick":
        # 5-node trees over one variable: a seeded sample sized to the budget (the full set of 3319 does not finish)
        five = [t for t in enum_upto(5, unops=UNOPS, variables=("x",)) if sk_size(t) == 5]
        random.Random(seed()).shuffle(five)
        five = five[:500]
    if True:
        # 5-node quotients: a / (b op c) and (b op c) / a - the zero-divisor guard meets every operator's result type
        lv = [("const", 0), ("var", "x")]
        for op in ("add", "sub", "mul", "div", "pow"):
            for b in lv:
                for c in lv:
                    for a in lv:
                        sks.append(renumber(("div", a, (op, b, c))))
                        sks.append(renumber(("div", (op, b, c), a)))
    eqs = [renumber(("eq", l, r)) for l in enum_upto(2, unops=UNOPS) for r in enum_upto(2 if tier == "quick" else 3, unops=UNOPS)]
    big = [renumber(b) for b in BIG]
    from ..trees import grid_text, use_grid

    use_grid("quick")  # the 25-value grid doubles every realisation fan-out: measured, the <= 4-node family alone then overruns
    rep.bounds = {"trees": f"every tree with <= {n} nodes over const/x/y, + - * / ^, neg sgn abs fact, and every 5-node quotient "
                           f"a / (b op c), (b op c) / a ({len(sks)}), " + (f"a seeded sample of {len(five)} of the 3319 other 5-node trees over const/x, " if five else "") +
                           f"{len(eqs)} equations, {len(big)} large-magnitude seeds (exponents 33..100, 25!, 10^30)",
                  "payloads": "unbounded reals/integers with lazily decided Python type (int or float); exponents -2..4; "
                              "factorial operands 0..5; grid " + grid_text() + " where a concrete value is required",
                  "variables": "each variable absent / None / a value (unbounded, int or float typed)"}
    rep.functions = ["*.evaluate", "BinaryExpression._check", "Add/Subtract/Multiply/Divide/Power/Equal/Negate/Factorial/"
                     "Sgn/Abs .operate", "VariableExpression.evaluate", "ConstantExpression.evaluate"]
    rep.stubs = shims.STUBS
    rep.explanation = (
        "Real evaluate on symbolic trees under the numpy/math stubs; per path: (i) a returned finite value equals the exact "
        "value for every payload/assignment of the path where the expression is defined (z3 validity; Python ints are exact "
        "integers of any magnitude, so a 64-bit wrap is a counterexample), (ii) a non-finite result only where the "
        "expression is undefined, a finite result of a root division never with a zero divisor, (iii) a variable that is "
        "absent or None raises ValueError while a present value - 0 included - does not, (iv) an equation returns its "
        "common value and raises only when the sides differ, (v) no other exception type.")
    rep.assumptions = ["NOT CLAIMED: the IEEE 'within a few ulps per operation' clause - floats are modelled as exact reals",
                       "powers with non-integer or variable exponents are an uninterpreted function with integer-instance axioms"]
    items = sks + eqs + big
    random.Random(seed()).shuffle(items)
    items.sort(key=lambda s: -sk_size(s))
    items = items + five  # the sample last: a budget cut then costs sample members, not the exhaustive families
    collect(rep, pmap(worker, items, budget_s=420 if tier == "quick" else 720, chunk=8))
    return rep.finish(required_reach=["evaluate"])
