"""C14 (traversals / look-ups), C15 (rotation): all binary tree shapes up to a depth bound.

Shape bits (does heap position i exist?), the stop position of a traversal, the rotated / queried node
are solver variables; the engine's path exploration enumerates every shape and every selector value
(the solver only decides feasibility here - said plainly in the evidence), the assertions compare the
real methods with direct recursive reference definitions.
"""
from __future__ import annotations

import random
from typing import Any, Dict, List, Optional, Tuple

import z3

from mathy_core import expressions as E
from mathy_core.tree import LEFT, RIGHT, STOP, BinaryTreeNode

from ..core import Report, Violation, collect, out_of_time, pmap, seed
from ..symx import Ctx, Stats, SymBool, SymInt, SymNum, explore

OPTS = {"root_only_deep": False}
Shape = Tuple[int, ...]  # sorted heap indices (root = 1, children 2i / 2i+1)


def enum_shapes(depth: int, stats: Stats, max_nodes: Optional[int] = None) -> List[Shape]:
    """All non-empty shapes with at most `depth` levels (and at most `max_nodes` nodes), by exploring
    symbolic existence bits; the size bound is a pseudo-boolean constraint handed to the solver."""
    top = 2**depth

    def h(ctx: Ctx) -> Shape:
        if max_nodes is not None:
            ctx.add(z3.PbLe([(z3.Bool(f"has{c}"), 1) for c in range(2, top)], max_nodes - 1))
            # a node exists only under an existing parent
            for c in range(4, top):
                ctx.add(z3.Implies(z3.Bool(f"has{c}"), z3.Bool(f"has{c // 2}")))
        present = [1]
        frontier = [1]
        while frontier:
            i = frontier.pop(0)
            for c in (2 * i, 2 * i + 1):
                if c < top and ctx.branch(z3.Bool(f"has{c}")):
                    present.append(c)
                    frontier.append(c)
        return tuple(sorted(present))

    return sorted({r.value for r in explore(h, stats) if r.status == "ok"})


def build_plain(shape: Shape) -> Dict[int, Any]:
    nodes = {i: BinaryTreeNode(id=f"n{i}") for i in shape}
    for i in shape:
        if 2 * i in nodes:
            nodes[i].set_left(nodes[2 * i])
        if 2 * i + 1 in nodes:
            nodes[i].set_right(nodes[2 * i + 1])
    return nodes


def build_dup(shape: Shape) -> Dict[int, Any]:
    """Plain nodes whose ids repeat: a node below the root's right child carries the id of the node at the same relative
    position below the left child (what a tree looks like after a rewrite put a subtree and its clone side by side -
    clone() keeps ids)."""
    nodes = build_plain(shape)
    for i, n in nodes.items():
        bits = bin(i)[3:]  # path from the root, first step dropped below
        n.id = "root" if i == 1 else f"d{bits[1:] or '-'}"
    return nodes


def deep_shapes() -> List[Shape]:
    """A few trees far deeper than the exhaustive bound (40+ levels): chains, zig-zags, combs, and chains whose lowest
    node has a two-level inner subtree."""
    out: List[Shape] = []
    for pattern in ("L", "R", "LR", "LLR", "RRL"):
        idx = 1
        chain = [1]
        for d in range(44):
            step = pattern[d % len(pattern)]
            idx = 2 * idx + (0 if step == "L" else 1)
            chain.append(idx)
        out.append(tuple(sorted(chain)))
        comb = set(chain)
        for i in chain[:-1]:
            for c in (2 * i, 2 * i + 1):
                comb.add(c)
        out.append(tuple(sorted(comb)))
        low = chain[-1]
        bushy = set(chain) | {2 * low, 2 * low + 1, 4 * low, 4 * low + 1, 4 * low + 2, 4 * low + 3}
        out.append(tuple(sorted(bushy)))
    return out


def build_math(shape: Shape) -> Dict[int, Any]:
    """The same shape out of expression nodes, through the public constructors."""
    nodes: Dict[int, Any] = {}
    for i in sorted(shape, reverse=True):
        l, r = nodes.get(2 * i), nodes.get(2 * i + 1)
        if l is not None and r is not None:
            n = (E.AddExpression if i % 2 else E.MultiplyExpression)(l, r)
        elif l is not None:
            n = E.FactorialExpression(l, child_on_left=True)
        elif r is not None:
            n = E.NegateExpression(r)
        else:
            n = E.VariableExpression("xyz"[i % 3]) if i % 2 else E.ConstantExpression(i)
        n.id = f"n{i}"
        nodes[i] = n
    return nodes


def ref_order(shape: Shape, order: str) -> List[Tuple[int, int]]:
    s = set(shape)
    out: List[Tuple[int, int]] = []

    def rec(i: int, d: int) -> None:
        if i not in s:
            return
        if order == "preorder":
            out.append((i, d))
        rec(2 * i, d + 1)
        if order == "inorder":
            out.append((i, d))
        rec(2 * i + 1, d + 1)
        if order == "postorder":
            out.append((i, d))

    rec(1, 0)
    return out


def link_audit(root: Any, expect_ids: List[str]) -> List[str]:
    problems: List[str] = []
    if root.parent is not None:
        problems.append("root has a parent")
    seen = set()
    ids = []
    stack = [root]
    steps = 0
    while stack:
        n = stack.pop()
        steps += 1
        if steps > 1000:
            return problems + ["cycle"]
        if id(n) in seen:
            problems.append(f"node {n.id} reachable twice")
            continue
        seen.add(id(n))
        ids.append(n.id)
        for side in ("left", "right"):
            ch = getattr(n, side)
            if ch is not None:
                if ch.parent is not n:
                    problems.append(f"{side} child {ch.id} of {n.id} has parent {getattr(ch.parent, 'id', None)}")
                stack.append(ch)
    if sorted(ids) != sorted(expect_ids):
        problems.append(f"reachable nodes {sorted(ids)} != {sorted(expect_ids)}")
    return problems


def _inorder_nodes(root: Any) -> List[Any]:
    out: List[Any] = []
    steps = [0]

    def rec(n: Any) -> None:
        steps[0] += 1
        if n is None or steps[0] > 2000:
            return
        rec(n.left)
        out.append(n)
        rec(n.right)

    rec(root)
    return out


def _link_audit_objs(root: Any, name: Dict[int, str]) -> List[str]:
    """link_audit by object identity (ids may repeat or be symbolic)."""
    problems: List[str] = []
    if root.parent is not None:
        problems.append("root has a parent")
    seen = set()
    stack = [root]
    steps = 0
    while stack:
        n = stack.pop()
        steps += 1
        if steps > 1000:
            return problems + ["cycle"]
        if id(n) in seen:
            problems.append(f"node {name.get(id(n))} reachable twice")
            continue
        seen.add(id(n))
        for side in ("left", "right"):
            ch = getattr(n, side)
            if ch is not None:
                if ch.parent is not n:
                    problems.append(f"{side} child {name.get(id(ch))} of {name.get(id(n))} has parent {name.get(id(ch.parent))}")
                stack.append(ch)
    if seen != set(name):
        problems.append(f"reachable nodes {sorted(name.get(i, '?') for i in seen)} != {sorted(name.values())}")
    return problems


def inorder_ids(root: Any) -> List[str]:
    out: List[str] = []
    steps = [0]

    def rec(n: Any) -> None:
        steps[0] += 1
        if n is None or steps[0] > 2000:
            return
        rec(n.left)
        out.append(n.id)
        rec(n.right)

    rec(root)
    return out


# ------------------------------------------------------------------------------------------------
# C14
# ------------------------------------------------------------------------------------------------

VISIT = {"preorder": "visit_preorder", "inorder": "visit_inorder", "postorder": "visit_postorder"}


def c14_shape(shape: Shape, flavour: str, ctx: Ctx) -> List[str]:
    """One path = one (order, start node, stop position); returns problems."""
    nodes = build_plain(shape) if flavour == "plain" else build_math(shape)
    root = nodes[1]
    n = len(shape)
    problems: List[str] = []
    order = ("preorder", "inorder", "postorder")[ctx.choose(3, "ord")]
    ref = ref_order(shape, order)
    # --- traversal with a symbolic stop position k (k == n: never stop)
    k = SymInt(z3.ToReal(z3.Int("k")))
    ctx.add(z3.And(z3.Int("k") >= 0, z3.Int("k") <= n))
    # quick tier: 4-level shapes are traversed from the root only (their proper subtrees are 3-level shapes,
    # which are traversed from every node)
    if OPTS["root_only_deep"] and max(shape) >= 8:
        start = root
    else:
        start = nodes[shape[ctx.choose(n, "start")]]
    start_i = int(start.id[1:])
    calls: List[Tuple[str, int]] = []

    def visit(node: Any, depth: int, data: Any) -> Any:
        calls.append((node.id, depth))
        if data != "payload":
            problems.append("visitor did not receive the data argument")
        if len(calls) - 1 == k:  # symbolic comparison: the solver decides the stop position
            return STOP
        return None

    ret = getattr(start, VISIT[order])(visit, 0, "payload")
    kk = int(ctx.realize(k.z))
    # reference: nodes of the subtree rooted at `start`, depths relative to it
    sub_ref = _ref_from(shape, start_i, order)
    want = sub_ref[: kk + 1] if kk < len(sub_ref) else sub_ref
    if calls != [(f"n{i}", d) for i, d in want]:
        problems.append(f"{order} from n{start_i} with stop at call {kk}: visited {calls}, expected {[(f'n{i}', d) for i, d in want]}")
    stopped = kk < len(sub_ref)
    if (ret == STOP) != stopped:
        problems.append(f"{order} returned {ret!r} although the visitor {'did' if stopped else 'did not'} stop")
    return problems


def c14_lookup(shape: Shape, flavour: str, ctx: Ctx) -> List[str]:
    """One path = one queried node; returns problems."""
    nodes = build_plain(shape) if flavour == "plain" else build_math(shape)
    root = nodes[1]
    n = len(shape)
    problems: List[str] = []
    q = shape[ctx.choose(n, "q")]
    node = nodes[q]
    parent = nodes.get(q // 2) if q > 1 else None
    if node.get_root() is not root:
        problems.append(f"get_root of n{q} is {node.get_root().id}")
    if q > 1:
        top = q
        while top > 3:
            top //= 2
        side = LEFT if top == 2 else RIGHT
        if node.get_root_side() != side:
            problems.append(f"get_root_side of n{q} is {node.get_root_side()}")
        want_side = LEFT if q % 2 == 0 else RIGHT
        try:
            if parent.get_side(node) != want_side:
                problems.append(f"get_side(n{q}) is {parent.get_side(node)}")
        except ValueError:
            problems.append(f"get_side(n{q}) raised for a real child")
        sib = nodes.get(q ^ 1)
        if node.get_sibling() is not sib:
            problems.append(f"get_sibling of n{q} is {getattr(node.get_sibling(), 'id', None)}")
        # a node that is not a child must be rejected
        if q > 3:
            try:
                root.get_side(node)
                problems.append(f"get_side accepted n{q}, which is not a child of the root")
            except ValueError:
                pass
    else:
        if node.get_sibling() is not None:
            problems.append("root has a sibling")
    kids = [nodes[c] for c in (2 * q, 2 * q + 1) if c in nodes]
    got = node.get_children()
    if len(got) != len(kids) or any(a is not b for a, b in zip(got, kids)):
        problems.append(f"get_children of n{q} is {[c.id for c in got]}")
    if node.is_leaf() != (not kids):
        problems.append(f"is_leaf of n{q} is {node.is_leaf()}")
    try:
        node.set_side(BinaryTreeNode() if flavour == "plain" else E.ConstantExpression(1), "middle")  # type: ignore[arg-type]
        problems.append("set_side accepted an invalid side")
    except ValueError:
        pass
    if flavour == "math":
        for o in VISIT:
            lst = root.to_list(o)
            if [x.id for x in lst] != [f"n{i}" for i, _ in ref_order(shape, o)]:
                problems.append(f"to_list({o}) is {[x.id for x in lst]}")
        try:
            root.to_list("sideways")
            problems.append("to_list accepted an invalid order")
        except ValueError:
            pass
        f = root.find_id(f"n{q}")
        if f is not node:
            problems.append(f"find_id(n{q}) returned {getattr(f, 'id', None)}")
        if root.find_id("absent") is not None:
            problems.append("find_id found an absent id")
        for cls in (E.AddExpression, E.MultiplyExpression, E.NegateExpression, E.FactorialExpression,
                    E.VariableExpression, E.ConstantExpression, E.BinaryExpression, E.UnaryExpression):
            want_ids = [f"n{i}" for i, _ in ref_order(shape, "inorder") if isinstance(nodes[i], cls)]
            if [x.id for x in root.find_type(cls)] != want_ids:
                problems.append(f"find_type({cls.__name__}) is {[x.id for x in root.find_type(cls)]}, expected {want_ids}")
        # look-ups must follow the links as they are NOW: query every id, replace one subtree by its clone through the
        # public set_side, query every id again
        for i in shape:
            root.find_id(f"n{i}")
        if n > 1:
            r = shape[1 + ctx.choose(n - 1, "rep")]
            below = [i for i in shape if _under(i, r)]
            probe = below[ctx.choose(len(below), "probe")]  # an id inside the subtree that is about to be replaced
            root.find_id(f"n{probe}")  # the LAST look-up before the change (what a one-entry memo would hold)
            old = nodes[r]
            par = nodes[r // 2]
            side = LEFT if r % 2 == 0 else RIGHT
            par.set_side(old.clone(), side)
            live: Dict[str, Any] = {}

            def walk(x: Any) -> None:
                if x is None:
                    return
                walk(x.left)
                live.setdefault(x.id, x)
                walk(x.right)

            walk(root)
            for i in [probe] + list(shape):
                got = root.find_id(f"n{i}")
                if got is not live.get(f"n{i}"):
                    problems.append(f"after replacing the subtree at n{r} by its clone, find_id(n{i}) returns a node that is not the one "
                                    f"reachable from the root")
                    break
            if [x.id for x in root.to_list("inorder")] != [f"n{i}" for i, _ in ref_order(shape, "inorder")]:
                problems.append(f"after replacing the subtree at n{r} by its clone, to_list differs from the link structure")
    return problems


def c14_relink(shape: Shape, flavour: str, ctx: Ctx) -> List[str]:
    """One path = one subtree that is cut off and grafted elsewhere."""
    nodes = build_plain(shape) if flavour == "plain" else build_math(shape)
    root = nodes[1]
    n = len(shape)
    problems: List[str] = []
    # root queries must follow the links as they are NOW: ask every node, cut one subtree off (public set_side with
    # clear_old_child_parent), ask again; graft it under a new node, ask again; put a new node above the old root, ask again
    if n > 1:
        mk = (lambda: BinaryTreeNode(id="top")) if flavour == "plain" else (lambda: E.NegateExpression())
        for i in shape:
            nodes[i].get_root()
            nodes[i].get_root_side() if i > 1 else None
        r2 = shape[1 + ctx.choose(n - 1, "cut")]
        below2 = [i for i in shape if _under(i, r2)]
        par2 = nodes[r2 // 2]
        if r2 % 2 == 0:
            par2.set_left(None, clear_old_child_parent=True)
        else:
            par2.set_right(None, clear_old_child_parent=True)
        for i in shape:
            want = nodes[r2] if i in below2 else root
            if nodes[i].get_root() is not want:
                problems.append(f"after cutting the subtree at n{r2} off, get_root of n{i} is {nodes[i].get_root().id}, expected {want.id}")
                break
        top = mk()
        top.set_right(nodes[r2])
        for i in below2:
            if nodes[i].get_root() is not top:
                problems.append(f"after grafting the cut subtree n{r2} under a new node, get_root of n{i} is {nodes[i].get_root().id}")
                break
        top2 = mk()
        top2.set_left(root)
        for i in shape:
            if i not in below2 and nodes[i].get_root() is not top2:
                problems.append(f"after putting a new node above the root, get_root of n{i} is {nodes[i].get_root().id}")
                break
            if i not in below2 and nodes[i].get_root_side() != LEFT:
                problems.append(f"after putting a new node above the root, get_root_side of n{i} is {nodes[i].get_root_side()}")
                break
    return problems


def _under(x: int, top: int) -> bool:
    while x > top:
        x //= 2
    return x == top


def _ref_from(shape: Shape, top: int, order: str) -> List[Tuple[int, int]]:
    s = set(shape)
    out: List[Tuple[int, int]] = []

    def rec(i: int, d: int) -> None:
        if i not in s:
            return
        if order == "preorder":
            out.append((i, d))
        rec(2 * i, d + 1)
        if order == "inorder":
            out.append((i, d))
        rec(2 * i + 1, d + 1)
        if order == "postorder":
            out.append((i, d))

    rec(top, 0)
    return out


# ------------------------------------------------------------------------------------------------
# C15
# ------------------------------------------------------------------------------------------------


ID_POOL = 3


def c15_shape(shape: Shape, flavour: Any, ctx: Optional[Ctx], force_q: Optional[int] = None) -> List[Any]:
    """flavour 'symid': node ids are solver variables over a pool of ID_POOL labels (every pattern of repeated ids, as
    clone() produces them); the code under test forks where it compares ids.  ('ids', labels): the same with concrete
    string ids (replay).  In both, the assertions go by object identity, never by id."""
    symbolic_ids = flavour == "symid"
    by_object = symbolic_ids or isinstance(flavour, tuple)
    nodes = build_plain(shape) if flavour == "plain" or by_object else (build_dup(shape) if flavour == "dup" else build_math(shape))
    zids: List[Any] = []
    if symbolic_ids:
        assert ctx is not None
        for i in shape:
            z = z3.Int(f"id{i}")
            ctx.add(z3.And(z >= 0, z < ID_POOL))
            zids.append(z)
            nodes[i].id = SymNum(z3.ToReal(z), True)
    elif isinstance(flavour, tuple):
        for i, lab in zip(shape, flavour[1]):
            nodes[i].id = f"i{lab}"
    root = nodes[1]
    n = len(shape)
    q = force_q if force_q is not None else shape[ctx.choose(n, "rot")]  # type: ignore[union-attr]
    probs = _c15_body(shape, nodes, root, q, by_object)
    if probs and symbolic_ids:
        m = ctx.ensure_model()  # type: ignore[union-attr]
        labels = [int(m.eval(z, model_completion=True).as_long()) for z in zids]
        probs.append(("ids", labels, q))
    return probs


def _c15_body(shape: Shape, nodes: Dict[int, Any], root: Any, q: int, by_object: bool) -> List[Any]:
    node = nodes[q]
    name = {id(nodes[i]): f"n{i}" for i in shape}
    if by_object:
        inorder_ids_ = lambda r: [name.get(id(x), "?") for x in _inorder_nodes(r)]  # noqa: E731
        ids = None
    else:
        inorder_ids_ = inorder_ids
        ids = [nodes[i].id for i in shape]
    before = inorder_ids_(root)
    parent = node.parent
    grand = parent.parent if parent is not None else None
    grand_side = None
    if grand is not None:
        grand_side = "left" if grand.left is parent else "right"
    was_left = parent is not None and parent.left is node
    try:
        ret = node.rotate()
    except Exception as e:
        return [f"rotate n{q}: raised {type(e).__name__}: {str(e)[:80]}"]
    problems: List[str] = []
    if ret is not node:
        problems.append("rotate did not return the node")
    new_root = node
    steps = 0
    while new_root.parent is not None and steps < 100:
        new_root = new_root.parent
        steps += 1
    if steps >= 100:
        return [f"rotate n{q}: parent chain does not terminate"]
    after = inorder_ids_(new_root)
    if after != before:
        problems.append(f"rotate n{q}: in-order sequence {before} became {after}")
    for p in (link_audit(new_root, ids) if ids is not None else _link_audit_objs(new_root, name)):
        problems.append(f"rotate n{q}: {p}")
    if parent is None:
        if new_root is not root or node.left is not nodes.get(2) or node.right is not nodes.get(3):
            problems.append("rotating the root changed the tree")
        return problems
    if node.parent is not grand:
        problems.append(f"rotate n{q}: node's parent is {name.get(id(node.parent))}, expected the former grandparent")
    if grand is not None and getattr(grand, grand_side) is not node:
        problems.append(f"rotate n{q}: the grandparent's {grand_side} slot does not hold the rotated node")
    if (node.right if was_left else node.left) is not parent:
        problems.append(f"rotate n{q}: the former parent is not the {'right' if was_left else 'left'} child of the node")
    if parent.parent is not node:
        problems.append(f"rotate n{q}: former parent's parent is {name.get(id(parent.parent))}")
    return problems


# ------------------------------------------------------------------------------------------------
# driver
# ------------------------------------------------------------------------------------------------


FNS = {"C14": None, "C14v": None, "C14l": None, "C15": None}


def worker(item: Tuple[str, Shape, str]) -> Dict[str, Any]:
    prop0, shape, flavour = item
    prop = prop0[:3]
    st = Stats()
    fn = {"C14v": c14_shape, "C14l": c14_lookup, "C14r": c14_relink, "C15": c15_shape}[prop0]
    part = {"stats": st, "cases": 1, "nontrivial": 1, "proved": 0, "queries": 0, "inconclusive": 0, "violations": [],
            "samples": [], "reach": {}, "inconclusive_samples": []}
    results = explore(lambda ctx: fn(shape, flavour, ctx), st)
    for r in results:
        if r.status != "ok":
            part["inconclusive"] += 1
            part["inconclusive_samples"].append(f"{shape} {flavour}: {r.status} {r.detail}")
            continue
        part["queries"] += 1
        if not r.value:
            part["proved"] += 1
            continue
        if flavour == "symid":
            # replay with the model's id labels as ordinary string ids, no engine
            _, labels, q = r.value[-1]
            again = c15_shape(shape, ("ids", tuple(labels)), None, force_q=q)
            if again:
                keys = {"shape": str(shape), "flavour": "ids", "fault": again[0].split(":")[0][:40]}
                part["violations"].append(Violation(prop, "ids", keys, f"shape {shape}, node ids {['i%d' % v for v in labels]}: {again[0]}",
                                                    {"kind": "tree", "property": prop0, "shape": list(shape), "flavour": ["ids", labels],
                                                     "q": q, "prefix": [], "observed": again}))
            else:
                part.setdefault("engine_mismatch", 0)
                part["engine_mismatch"] += 1
                part.setdefault("mismatch_samples", []).append(f"{shape} symid {labels} q={q}: {r.value[0]}")
            continue
        # replay: the checks above already ran on the real, concrete objects of this path; run the path again
        again = explore_one(fn, shape, flavour, r.prefix)
        if again:
            what = again[0]
            keys = {"shape": str(shape), "flavour": flavour, "fault": what.split(":")[0][:40]}
            part["violations"].append(Violation(prop, f"{flavour}", keys, f"shape {shape} ({flavour} nodes): {what}",
                                                {"kind": "tree", "property": prop0, "shape": list(shape),
                                                 "flavour": flavour, "prefix": _prefix_json(r.prefix), "observed": again}))
    part["samples"].append({"shape": list(shape), "flavour": flavour, "paths": len(results)})
    part["reach"][flavour] = 1
    return part


def _prefix_json(prefix: list) -> list:
    out = []
    for d in prefix:
        if isinstance(d, bool):
            out.append(d)
        else:
            out.append([d[0], str(d[1])])
    return out


def _prefix_unjson(prefix: list) -> list:
    from fractions import Fraction

    out = []
    for d in prefix:
        if isinstance(d, bool):
            out.append(d)
        else:
            out.append((d[0], Fraction(d[1])))
    return out


def explore_one(fn: Any, shape: Shape, flavour: str, prefix: list) -> List[str]:
    """Re-run exactly one path (fresh objects) and return its problems."""
    from ..symx import solver

    s = solver()
    s.push()
    c = Ctx(s, prefix, Stats())
    Ctx.cur = c
    try:
        return fn(shape, flavour, c)
    finally:
        Ctx.cur = None
        s.pop()


def replay_record(rec: Dict[str, Any]) -> Tuple[bool, str]:
    if isinstance(rec.get("flavour"), list):
        probs = c15_shape(tuple(rec["shape"]), ("ids", tuple(rec["flavour"][1])), None, force_q=rec["q"])
        return bool(probs), "; ".join(str(p) for p in probs)
    fn = {"C14v": c14_shape, "C14l": c14_lookup, "C14r": c14_relink, "C15": c15_shape}[rec["property"]]
    probs = explore_one(fn, tuple(rec["shape"]), rec["flavour"], _prefix_unjson(rec["prefix"]))
    return bool(probs), "; ".join(probs)


def run(prop: str, tier: str) -> int:
    rep = Report(prop, tier)
    st = Stats()
    if prop == "C14":
        depth = 4
        shapes = enum_shapes(depth, st)
        extra: List[Shape] = [] if tier == "quick" else [s for s in enum_shapes(5, st, max_nodes=8) if max(s) >= 16]
    else:
        depth = 4
        shapes = enum_shapes(depth, st)
        extra = [] if tier == "quick" else [s for s in enum_shapes(5, st, max_nodes=10) if max(s) >= 16]
    rep.stats.merge(st)
    rep.bounds = {"depth": depth, "shapes": len(shapes), "node_flavours": ["BinaryTreeNode", "MathExpression subclasses"]}
    if extra:
        rep.bounds["extra"] = f"{len(extra)} shapes with 5 levels and at most 8 nodes"
        shapes = shapes + extra
    if prop == "C14":
        rep.functions = ["BinaryTreeNode.visit_preorder/visit_inorder/visit_postorder", "get_root/get_root_side/get_side/"
                         "set_side/get_children/get_sibling/is_leaf", "MathExpression.to_list/find_id/find_type"]
        rep.explanation = (
            "Every binary tree shape with at most `depth` levels (existence bits are solver variables; the exploration "
            "enumerates all satisfying shapes), on both plain BinaryTreeNode trees and trees of expression nodes. Per shape "
            "the traversal order, the start node, the stop position k (the visitor compares its call count with the solver "
            "variable k) and the queried node are symbolic selectors: every value is explored. Assertions: the callback "
            "sequence (node, relative depth) equals the recursive reference definition cut after call k, no callback "
            "after STOP, return value STOP iff stopped; look-ups agree with the link structure; invalid arguments raise "
            "ValueError. The solver's role is feasibility of the selectors only.")
    else:
        rep.functions = ["BinaryTreeNode.rotate", "set_left/set_right"]
        rep.explanation = (
            "Every binary tree shape with at most `depth` levels and every node of it (symbolic selector): after "
            "node.rotate() the in-order id sequence is unchanged, all parent/child links are mutually consistent and reach "
            "every node exactly once, the former grandparent's slot holds the rotated node, the former parent is its child "
            "on the opposite side; rotating the root changes nothing. The solver's role is feasibility of the selectors only.")
    rep.assumptions = ["shapes deeper than the bound are outside the claim"]
    OPTS["root_only_deep"] = tier == "quick"
    if prop == "C14":
        rep.bounds["start_nodes"] = ("every node for shapes with <= 3 levels, the root for 4-level shapes" if tier == "quick"
                                     else "every node")
    kinds = ["C14v", "C14l", "C14r"] if prop == "C14" else ["C15"]
    items = [(k, s, f) for s in shapes for f in ("plain", "math") for k in kinds]
    if prop == "C15":
        items += [("C15", s, "dup") for s in shapes]
        items += [("C15", s, "symid") for s in shapes]
        rep.bounds["symbolic_ids"] = f"every shape also with node ids as solver variables over {ID_POOL} labels (any pattern of repeated ids)"
        deep = deep_shapes()
        items += [("C15", s, "plain") for s in deep]
        rep.bounds["duplicate_ids"] = "every shape also with ids repeated between the root's two subtrees (as after a rewrite that clones a subtree)"
        rep.bounds["deep"] = f"{len(deep)} chains / zig-zags / combs with 45 levels, every node rotated"
    random.Random(seed()).shuffle(items)
    collect(rep, pmap(worker, items, budget_s=400 if tier == "quick" else 600, chunk=8))
    return rep.finish(required_reach=["plain", "math"])
