"""Shared machinery for the rule properties (C01, C02, C06, C07, C08, C09)."""
from __future__ import annotations

import glob
import inspect
import itertools
import json
import os
from fractions import Fraction
from typing import Any, Callable, Dict, Iterator, List, Optional, Tuple

import z3

import mathy_core
from mathy_core import expressions as E
from mathy_core import rules as R
from mathy_core.parser import ExpressionParser

from . import shims
from .symx import Ctx, SymNum, Unsupported, RV, frac_of, model_value
from .trees import (
    BIN,
    UN,
    ConcreteProvider,
    SymProvider,
    build,
    kind,
    preorder,
    renumber,
    root_of,
    shape,
    sk_size,
    sk_str,
    slot_roles,
    variables_of,
)
from .zeval import Undefined, ceval, close, uses_uf, var, zeval_top

REPO = os.path.dirname(os.path.dirname(mathy_core.__file__))


def rule_options() -> List[Tuple[str, Callable[[], Any]]]:
    """Every rule class exported by mathy_core.rules x every combination of its boolean options."""
    out: List[Tuple[str, Callable[[], Any]]] = []
    for name in R.__all__:
        cls = getattr(R, name)
        try:
            params = [
                p
                for p in inspect.signature(cls.__init__).parameters.values()
                if p.name != "self" and isinstance(p.default, bool)
            ]
        except (TypeError, ValueError):
            params = []
        if not params:
            out.append((name, cls))
            continue
        for combo in itertools.product([False, True], repeat=len(params)):
            kw = {p.name: v for p, v in zip(params, combo)}
            label = name + "(" + ",".join(f"{k}={v}" for k, v in kw.items()) + ")"
            out.append((label, (lambda cls=cls, kw=kw: cls(**kw))))
    return out


RULES = rule_options()
RULE_BY_NAME = dict(RULES)


def rule_type_label(rule: Any, node: Any) -> str:
    """The rule's own classification of the node (get_type), used only to key findings."""
    gt = getattr(rule, "get_type", None)
    if gt is None:
        return "-"
    try:
        t = gt(node)
    except Exception:
        return "?"
    if isinstance(t, tuple):
        t = t[0]
    return str(t)


# ------------------------------------------------------------------------------------------------
# case families
# ------------------------------------------------------------------------------------------------


def to_skel(node: Any) -> Any:
    """Real tree -> skeleton (literals become payload slots)."""
    counter = [0]

    def rec(n: Any) -> Any:
        k = kind(n)
        if k == "const":
            counter[0] += 1
            return ("const", counter[0] - 1)
        if k == "var":
            return ("var", n.identifier)
        if k in UN:
            ch = n.left if n.left is not None else n.right
            return (k, rec(ch))
        return (k, rec(n.left), rec(n.right))

    return rec(node)


def literal_values(node: Any) -> Dict[int, Any]:
    vals: Dict[int, Any] = {}

    def rec(n: Any) -> None:
        if n is None:
            return
        k = kind(n)
        if k == "const":
            vals[len(vals)] = n.value
            return
        if k in UN:
            rec(n.left if n.left is not None else n.right)
            return
        rec(n.left)
        rec(n.right)

    rec(node)
    return vals


def test_json_inputs() -> List[Tuple[str, str]]:
    """(rule file stem, input text) for every example (valid and invalid) shipped with the rules."""
    out: List[Tuple[str, str]] = []
    for p in sorted(glob.glob(os.path.join(REPO, "mathy_core", "rules", "*.test.json"))):
        stem = os.path.basename(p).split(".")[0]
        try:
            with open(p) as f:
                data = json.load(f)
        except Exception:
            continue
        for sect in ("valid", "invalid"):
            for ex in data.get(sect, []):
                if isinstance(ex, dict) and isinstance(ex.get("input"), str):
                    out.append((stem, ex["input"]))
    return out


def family_B(max_size: int = 40) -> List[Tuple[str, Any, Dict[int, Any]]]:
    """(label, skeleton, literal payloads as written) for every parseable rule example."""
    seen = set()
    out = []
    for stem, text in test_json_inputs():
        try:
            tree = ExpressionParser().parse(text)
        except Exception:
            continue
        sk = to_skel(tree)
        if sk in seen or sk_size(sk) > max_size:
            continue
        seen.add(sk)
        out.append((f"{stem}:{text}", sk, literal_values(tree)))
    return out


LIBRARY = [
    ("const", 0),
    ("var", "x"),
    ("neg", ("var", "x")),
    ("pow", ("var", "x"), ("const", 0)),
    ("mul", ("const", 0), ("var", "x")),
    ("mul", ("const", 0), ("pow", ("var", "x"), ("const", 1))),
    ("sub", ("const", 0), ("var", "x")),
    ("add", ("const", 0), ("var", "x")),
    ("pow", ("const", 0), ("var", "x")),
    ("div", ("const", 0), ("var", "x")),
    ("mul", ("var", "x"), ("var", "y")),
    ("add", ("var", "x"), ("var", "y")),
    ("neg", ("const", 0)),
    ("sgn", ("var", "x")),
]


def positions(sk: Any, path: Tuple[int, ...] = ()) -> Iterator[Tuple[int, ...]]:
    yield path
    if sk[0] not in ("const", "var"):
        for i, c in enumerate(sk[1:]):
            yield from positions(c, path + (i + 1,))


def subst(sk: Any, path: Tuple[int, ...], new: Any) -> Any:
    if not path:
        return new
    i = path[0]
    return sk[:i] + (subst(sk[i], path[1:], new),) + sk[i + 1 :]


def family_B_subst(base: List[Any], lib: List[Any] = LIBRARY) -> Iterator[Any]:
    """Each base skeleton with one position replaced by each library subtree."""
    seen = set()
    for sk in base:
        for pos in positions(sk):
            for new in lib:
                t = renumber(subst(sk, pos, new))
                if t not in seen:
                    seen.add(t)
                    yield t


CONTEXTS: List[Callable[[Any], Any]] = [
    lambda t: ("add", t, ("var", "z")),
    lambda t: ("add", ("var", "z"), t),
    lambda t: ("sub", t, ("var", "z")),
    lambda t: ("sub", ("var", "z"), t),
    lambda t: ("mul", t, ("var", "z")),
    lambda t: ("mul", ("const", 99), t),
    lambda t: ("div", t, ("var", "z")),
    lambda t: ("div", ("var", "z"), t),
    lambda t: ("pow", t, ("const", 99)),
    lambda t: ("neg", t),
    lambda t: ("sgn", t),
]


# ------------------------------------------------------------------------------------------------
# model extraction
# ------------------------------------------------------------------------------------------------


def assignment_from_model(m: Any, names: List[str]) -> Dict[str, Any]:
    env: Dict[str, Any] = {}
    for n in names:
        v = model_value(m, var(n))
        env[n] = v if v is not None else Fraction(1)
    return env


def nice_query(ctx: Ctx, conds: List[Any], syms: List[Any], axioms: Optional[List[Any]] = None):
    """Decide the query; when it is sat, prefer a counterexample with small integer / dyadic values."""
    r, m = ctx.query_lazy(conds, axioms or [])
    conds = list(conds) + list(axioms or [])
    if r != "sat" or not syms:
        return r, m
    ints = [z3.And(z3.IsInt(s), s >= -12, s <= 12) for s in syms]
    r2, m2 = ctx.query(*conds, *ints, timeout=3000)
    if r2 == "sat":
        return r2, m2
    quarters = [z3.And(z3.IsInt(4 * s), s >= -50, s <= 50) for s in syms]
    r2, m2 = ctx.query(*conds, *quarters, timeout=3000)
    if r2 == "sat":
        return r2, m2
    return r, m


def localize(a: Any, b: Any):
    """Descend through identical context: the smallest pair of differing sub-terms of two terms that are
    the same function of them (z3 hash-consing makes unchanged subtrees share one AST)."""
    while True:
        if z3.is_app(a) and z3.is_app(b) and a.num_args() == b.num_args() and a.num_args() > 0 \
                and a.decl().eq(b.decl()):
            ca, cb = a.children(), b.children()
            diff = [i for i in range(len(ca)) if ca[i].get_id() != cb[i].get_id()]
            if len(diff) == 1:
                a, b = ca[diff[0]], cb[diff[0]]
                continue
        return a, b


def num_json(v: Any) -> Any:
    if isinstance(v, Fraction):
        return int(v) if v.denominator == 1 else {"frac": [v.numerator, v.denominator]}
    return v


def num_unjson(v: Any) -> Any:
    if isinstance(v, dict) and "frac" in v:
        return Fraction(v["frac"][0], v["frac"][1])
    return v


def skel_json(sk: Any) -> Any:
    return list(skel_json(c) if isinstance(c, tuple) else c for c in sk)


def skel_unjson(sk: Any) -> Any:
    return tuple(skel_unjson(c) if isinstance(c, list) else c for c in sk)
