"""Shared plumbing: parallel case runner, violations, known findings, evidence, exit codes."""
from __future__ import annotations

import fnmatch
import hashlib
import json
import multiprocessing as mp
import os
import re
import sys
import time
import traceback
from typing import Any, Callable, Dict, Iterable, List, Optional, Tuple

from .symx import Stats

ROOT = os.path.dirname(os.path.dirname(os.path.abspath(__file__)))
NPROC = int(os.environ.get("VERIF_NPROC", str(min(16, os.cpu_count() or 4))))


def seed() -> int:
    try:
        return int(os.environ.get("VERIF_SEED", "0"))
    except ValueError:
        return 0


# ------------------------------------------------------------------------------------------------
# parallel map over cases
# ------------------------------------------------------------------------------------------------

_FN: Optional[Callable[[Any], Any]] = None
_DEADLINE: Optional[float] = None


def deadline() -> Optional[float]:
    return _DEADLINE


def out_of_time() -> bool:
    return _DEADLINE is not None and time.time() > _DEADLINE


def _call(chunk: List[Any]) -> List[Any]:
    out = []
    for item in chunk:
        if out_of_time():
            out.append(("skipped", item, None))
            continue
        try:
            t0 = time.time()
            out.append(("ok", item, _FN(item)))  # type: ignore[misc]
            if os.environ.get("VERIF_SLOW") and time.time() - t0 > float(os.environ["VERIF_SLOW"]):
                print(f"SLOW {time.time() - t0:.1f}s {item!r}"[:300], file=sys.stderr, flush=True)
        except BaseException as e:  # harness bug: never a property verdict
            out.append(("error", item, "".join(traceback.format_exception(type(e), e, e.__traceback__))[-3000:]))
    return out


def _loop(conn: Any) -> None:
    while True:
        try:
            msg = conn.recv()
        except (EOFError, OSError):
            return
        if msg is None:
            return
        conn.send(_call(msg))


class _Worker:
    def __init__(self, ctx: Any):
        self.conn, child = ctx.Pipe()
        self.proc = ctx.Process(target=_loop, args=(child,), daemon=True)
        self.proc.start()
        child.close()
        self.current: Optional[List[Any]] = None
        self.started = 0.0


def pmap(fn: Callable[[Any], Any], items: Iterable[Any], budget_s: Optional[float] = None, chunk: int = 8,
         item_timeout: float = 180.0):
    """Yield (status, item, result) for every item, using NPROC forked workers.

    A worker that dies (a solver crash) or holds one chunk for longer than `item_timeout` seconds (a solver call that
    ignores its timeout and the interrupt) does not stall the run: it is killed, its chunk is retried item by item in a
    fresh worker, and an item that kills / stalls its worker again is reported with status 'crashed' (inconclusive)."""
    global _FN, _DEADLINE
    from collections import deque
    from multiprocessing.connection import wait

    items = list(items)
    _FN = fn
    _DEADLINE = (time.time() + budget_s) if budget_s else None
    chunks = deque(items[i : i + chunk] for i in range(0, len(items), chunk))
    if NPROC <= 1:
        for ch in chunks:
            yield from _call(ch)
        return
    ctx = mp.get_context("fork")
    workers = [_Worker(ctx) for _ in range(min(NPROC, max(1, len(chunks))))]
    try:
        while chunks or any(w.current is not None for w in workers):
            for w in workers:
                if w.current is None and chunks:
                    w.current = chunks.popleft()
                    w.started = time.time()
                    try:
                        w.conn.send(w.current)
                    except (BrokenPipeError, OSError):
                        pass
            busy = [w for w in workers if w.current is not None]
            if not busy:
                continue
            ready = wait([w.conn for w in busy], timeout=2.0)
            for w in busy:
                if w.conn in ready:
                    try:
                        res = w.conn.recv()
                    except (EOFError, OSError):
                        res = None
                    if res is not None:
                        w.current = None
                        yield from res
                        continue
                elif w.proc.is_alive():
                    if time.time() - w.started < item_timeout:
                        continue
                    w.proc.kill()  # stalled: treat like a crash
                # the worker died (or was killed) while holding w.current
                lost = w.current or []
                w.proc.join(timeout=1)
                idx = workers.index(w)
                workers[idx] = _Worker(ctx)
                if len(lost) > 1:
                    for it in reversed(lost):
                        chunks.appendleft([it])
                else:
                    for it in lost:
                        yield ("crashed", it, "worker process died or stalled (solver crash / solver ignoring its timeout) "
                                              "while exploring this case")
    finally:
        for w in workers:
            try:
                w.conn.send(None)
            except Exception:
                pass
        for w in workers:
            w.proc.join(timeout=2)
            if w.proc.is_alive():
                w.proc.terminate()


# ------------------------------------------------------------------------------------------------
# violations and known findings
# ------------------------------------------------------------------------------------------------


class Violation:
    """A reproduced violation (never constructed before the concrete replay confirmed it)."""

    def __init__(self, prop: str, site: str, keys: Dict[str, str], what: str, replay: Dict[str, Any]):
        self.prop = prop
        self.site = site
        self.keys = keys
        self.what = what
        self.replay = replay

    def ident(self) -> str:
        return self.site + "|" + "|".join(f"{k}={v}" for k, v in sorted(self.keys.items()))

    def to_json(self) -> Dict[str, Any]:
        return {"property": self.prop, "site": self.site, "keys": self.keys, "what": self.what, "replay": self.replay}


def load_known() -> List[Dict[str, Any]]:
    p = os.path.join(ROOT, "known_findings.json")
    if not os.path.exists(p):
        return []
    with open(p) as f:
        data = json.load(f)
    return data.get("findings", data) if isinstance(data, dict) else data


def match_known(v: Violation, known: List[Dict[str, Any]]) -> Optional[Dict[str, Any]]:
    for e in known:
        if e.get("status") != "known" or e.get("property") != v.prop:
            continue
        if not fnmatch.fnmatchcase(v.site, e.get("site", "*")):
            continue
        ok = True
        for k, pat in (e.get("pattern") or {}).items():
            val = v.keys.get(k)
            if val is None or re.fullmatch(pat, val) is None:
                ok = False
                break
        if ok:
            return e
    return None


def isolated_replay(prop: str, rec: Dict[str, Any]) -> Tuple[bool, str]:
    """Replay a record in a fresh interpreter (used when the in-process replay is poisoned by state that the code
    under test kept from the symbolic run, e.g. a proxy stored in a module-level object)."""
    import subprocess
    import tempfile

    os.makedirs(os.path.join(ROOT, "replays"), exist_ok=True)
    with tempfile.NamedTemporaryFile("w", suffix=".json", delete=False, dir=os.path.join(ROOT, "replays")) as f:
        json.dump({"property": prop, "replay": rec}, f, default=str)
        path = f.name
    try:
        p = subprocess.run([sys.executable, "-B", "-m", "vf.cli", prop, "--replay", path], cwd=ROOT, stdout=subprocess.PIPE,
                           stderr=subprocess.STDOUT, text=True, timeout=120)
        line = next((l for l in p.stdout.splitlines() if l.startswith("REPRODUCED")), "")
        return p.returncode == 1 and bool(line), line[len("REPRODUCED "):]
    except Exception as e:
        return False, f"isolated replay failed: {e}"
    finally:
        try:
            os.unlink(path)
        except OSError:
            pass


def write_replay(v: Violation) -> str:
    d = os.path.join(ROOT, "replays", v.prop)
    os.makedirs(d, exist_ok=True)
    h = hashlib.sha1(json.dumps(v.to_json(), sort_keys=True, default=str).encode()).hexdigest()[:12]
    p = os.path.join(d, f"{h}.json")
    with open(p, "w") as f:
        json.dump(v.to_json(), f, indent=1, default=str)
    return p


# ------------------------------------------------------------------------------------------------
# evidence + verdict
# ------------------------------------------------------------------------------------------------


class Report:
    def __init__(self, prop: str, tier: str):
        self.prop = prop
        self.tier = tier
        self.t0 = time.time()
        self.stats = Stats()
        self.cases = 0
        self.nontrivial = 0
        self.proved = 0  # property queries answered unsat/valid
        self.queries = 0  # property queries asked
        self.inconclusive = 0
        self.inconclusive_samples: List[str] = []
        self.fallback_concrete = 0
        self.engine_mismatch = 0
        self.mismatch_samples: List[str] = []
        self.harness_errors: List[str] = []
        self.skipped = 0
        self.validated = 0
        self.samples: List[Any] = []
        self.violations: List[Violation] = []
        self.functions: List[str] = []
        self.bounds: Dict[str, Any] = {}
        self.assumptions: List[str] = []
        self.stubs: List[str] = []
        self.extra: Dict[str, Any] = {}
        self.reach: Dict[str, int] = {}
        self.explanation = ""
        self.exhaustive = True

    def sample(self, s: Any, cap: int = 12) -> None:
        if len(self.samples) < cap:
            self.samples.append(s)

    def hit(self, label: str, n: int = 1) -> None:
        self.reach[label] = self.reach.get(label, 0) + n

    def absorb(self, part: Dict[str, Any]) -> None:
        """Merge a worker's per-case summary (plain dict)."""
        st = part.get("stats")
        if st is not None:
            self.stats.merge(st)
        self.cases += part.get("cases", 1)
        self.nontrivial += part.get("nontrivial", 0)
        self.proved += part.get("proved", 0)
        self.queries += part.get("queries", 0)
        self.inconclusive += part.get("inconclusive", 0)
        for s in part.get("inconclusive_samples", []):
            if len(self.inconclusive_samples) < 10:
                self.inconclusive_samples.append(s)
        self.fallback_concrete += part.get("fallback_concrete", 0)
        self.engine_mismatch += part.get("engine_mismatch", 0)
        for s in part.get("mismatch_samples", []):
            if len(self.mismatch_samples) < 10:
                self.mismatch_samples.append(s)
        self.validated += part.get("validated", 0)
        self.skipped += part.get("skipped", 0)
        for s in part.get("samples", []):
            self.sample(s)
        for v in part.get("violations", []):
            self.violations.append(v)
        for k, n in part.get("reach", {}).items():
            self.hit(k, n)
        for k in ("prefiltered",):
            if k in part:
                self.extra[k] = self.extra.get(k, 0) + part[k]

    def finish(self, required_reach: Iterable[str] = ()) -> int:
        known = load_known()
        wall = time.time() - self.t0
        seen: Dict[str, Violation] = {}
        for v in self.violations:
            seen.setdefault(v.ident(), v)
        new: List[Violation] = []
        known_hits: Dict[str, Dict[str, Any]] = {}
        for v in seen.values():
            e = match_known(v, known)
            if e is None:
                new.append(v)
            else:
                known_hits.setdefault(e.get("id", e.get("what", "?")), e)
        missing = [r for r in required_reach if self.reach.get(r, 0) == 0]
        if self.stats.budget or self.skipped or self.inconclusive or self.fallback_concrete:
            self.exhaustive = False
        coverage: Dict[str, Any] = {
            "states": max(1, self.stats.paths),
            "transitions": max(1, self.stats.decisions),
            "traces_validated_against_impl": self.validated,
            "samples": self.samples or ["(no sample recorded)"],
            "evaluations": max(1, self.cases),
            "distinct_nontrivial": self.nontrivial,
            "rule": self.extra.pop("rule", "one case = one skeleton/sequence/string class explored on all feasible paths; "
                                   "non-trivial = reached the property assertion"),
            "exhaustive": self.exhaustive,
            "explanation": self.explanation,
            "functions_encoded": self.functions,
            "bounds": self.bounds,
            "property_queries": self.queries,
            "property_queries_proved": self.proved,
            "inconclusive": self.inconclusive,
            "inconclusive_samples": self.inconclusive_samples,
            "fallback_concrete": self.fallback_concrete,
            "engine_mismatch": self.engine_mismatch,
            "mismatch_samples": self.mismatch_samples,
            "skipped_for_time": self.skipped,
            "solver": self.stats.as_dict(),
            "solver_s": round(self.stats.solver_s, 2),
            "stubs": self.stubs,
            "reachability": self.reach,
            "known_findings_seen": sorted(known_hits),
            "harness_errors": self.harness_errors[:5],
        }
        coverage.update(self.extra)
        ev = {
            "property_id": self.prop,
            "tier": self.tier,
            "seed": seed(),
            "level": "model_checking",
            "coverage": coverage,
            "assumptions": self.assumptions,
            "wall_s": round(wall, 2),
            "violations": len(new),
        }
        evdir = os.environ.get("VERIF_EVIDENCE_DIR") or os.path.join(ROOT, "evidence")  # override: seed evaluation only
        os.makedirs(evdir, exist_ok=True)
        with open(os.path.join(evdir, f"{self.prop}.json"), "w") as f:
            json.dump(ev, f, indent=1, default=str)
        for e in known_hits.values():
            print(f"KNOWN-FINDING: property={self.prop} {e.get('what', '')} [{e.get('witness', '')}]")
        for v in new[:20]:
            p = write_replay(v)
            print(f"VIOLATION property={self.prop} replay={p}")
            print(f"  site={v.site} keys={v.keys}\n  {v.what}")
        print(
            f"[{self.prop} {self.tier}] cases={self.cases} paths={self.stats.paths} decisions={self.stats.decisions} "
            f"queries={self.queries} proved={self.proved} inconclusive={self.inconclusive} "
            f"fallback={self.fallback_concrete} mismatch={self.engine_mismatch} skipped={self.skipped} "
            f"solver_s={self.stats.solver_s:.1f} wall_s={wall:.1f} violations={len(new)} known={len(known_hits)}"
        )
        if new:
            return 1
        if self.harness_errors:
            print("HARNESS-ERROR " + self.harness_errors[0][-1500:])
            return 3
        if missing:
            print(f"HARNESS-ERROR vacuity: never reached {missing}")
            return 3
        if self.engine_mismatch:
            print(f"HARNESS-ERROR {self.engine_mismatch} solver counterexample(s) did not reproduce on the real code: "
                  f"{self.mismatch_samples[:2]}")
            return 3
        return 0


def collect(report: Report, results: Iterable[Any]) -> None:
    for status, item, res in results:
        if status == "ok":
            report.absorb(res)
        elif status == "skipped":
            report.skipped += 1
        elif status == "crashed":
            report.inconclusive += 1
            report.extra["crashed_cases"] = report.extra.get("crashed_cases", 0) + 1
            if len(report.inconclusive_samples) < 10:
                report.inconclusive_samples.append(f"{item!r}: {res}")
        else:
            report.harness_errors.append(f"{item!r}: {res}")
