"""symx - a small path-forking symbolic executor over z3.

The code under test (mathy_core, imported from /repo's working tree) runs *natively*.  Its numeric,
character and choice inputs are proxy objects wrapping z3 terms.  Every Python-level decision that
depends on a proxy (`__bool__`, `__index__`, `__hash__`, ...) asks the solver which outcomes are
feasible under the current path condition, follows one and schedules the other.  Exploration is
depth first over *decision prefixes*; a path is re-executed from the start for every prefix, so no
instrumentation of /repo is needed.

Engine control flow derives from BaseException so that `except Exception` in the code under test or
in a harness cannot swallow it.
"""
from __future__ import annotations

import signal
import threading
import time
from fractions import Fraction
from typing import Any, Callable, List, Optional

import z3

BRANCH_TIMEOUT_MS = 3000
QUERY_TIMEOUT_MS = 8000


class EngineSignal(BaseException):
    pass


class Infeasible(EngineSignal):
    """The decision prefix turned out to be unsatisfiable (pruned, not a path)."""


class Unsupported(EngineSignal):
    """The code did something with a proxy that the engine does not model."""


class NeedsBound(EngineSignal):
    """A concrete value was required from a symbol with an unbounded / too large domain."""


class Budget(EngineSignal):
    """Step / path budget exhausted."""


class SolverUnknown(EngineSignal):
    """The solver could not decide a query that the path needs."""


def frac_of(v: Any) -> Optional[Fraction]:
    """z3 numeral -> Fraction (None when it is not a rational numeral)."""
    if z3.is_int_value(v):
        return Fraction(v.as_long())
    if z3.is_rational_value(v):
        return Fraction(v.numerator_as_long(), v.denominator_as_long())
    if z3.is_algebraic_value(v):
        return None
    return None


def RV(x: Any) -> Any:
    """Python number -> z3 Real numeral (exact)."""
    if isinstance(x, bool):
        return z3.RealVal(int(x))
    if isinstance(x, int):
        return z3.RealVal(x)
    if isinstance(x, Fraction):
        return z3.RealVal(str(x))
    if isinstance(x, float):
        if x != x or x in (float("inf"), float("-inf")):
            raise Unsupported("non-finite float")
        return z3.RealVal(str(Fraction(x)))
    raise Unsupported(f"cannot lift {type(x)}")


class Stats:
    def __init__(self) -> None:
        self.paths = 0
        self.infeasible = 0
        self.decisions = 0  # solver-decided branch decisions
        self.queries = 0
        self.solver_s = 0.0
        self.unknown = 0
        self.unsupported = 0
        self.needs_bound = 0
        self.budget = 0

    def merge(self, o: "Stats") -> None:
        for k, v in o.__dict__.items():
            setattr(self, k, getattr(self, k) + v)

    def as_dict(self) -> dict:
        d = dict(self.__dict__)
        d["solver_s"] = round(d["solver_s"], 3)
        return d


class Ctx:
    """State of one path: the decision prefix being replayed and the solver scope."""

    cur: Optional["Ctx"] = None

    def __init__(self, solver: z3.Solver, prefix: list, stats: Stats, max_steps: int = 20000):
        self.s = solver
        self.prefix = list(prefix)
        self.pos = 0
        self.pending: List[list] = []
        self.model: Optional[z3.ModelRef] = None
        self.stats = stats
        self.counter = 0
        self.steps = 0
        self.max_steps = max_steps
        self.assumptions: List[Any] = []  # every constraint of the path, in order
        self.notes: dict = {}
        self.domains: dict = {}  # ast id of an independent selector variable -> frozenset of its possible values
        self.decided: dict = {}  # ast id of a decided condition -> outcome
        self._keep: List[Any] = []  # keeps those terms alive so that ids stay unique
        self.implied = 0
        self.pins: List[Any] = []  # (symbol, numeral) for symbols realised on this path
        self.pinned: dict = {}

    # -- solver plumbing -------------------------------------------------------------------
    def _check(self, *extra: Any, timeout: int = BRANCH_TIMEOUT_MS) -> str:
        self.s.set("timeout", timeout)
        t = time.perf_counter()
        # z3's soft timeout is not always honoured inside nlsat: a watchdog thread interrupts the context a little later
        _watch(self.s.ctx, timeout / 1000.0 + 2.0)
        try:
            r = str(self.s.check(*extra))
        except z3.Z3Exception:
            r = "unknown"
        finally:
            with _WD_LOCK:
                _WD["deadline"] = None
                fired = _WD.pop("fired", False)
            if fired:
                _flush_cancel(self.s)
        self.stats.solver_s += time.perf_counter() - t
        self.stats.queries += 1
        return r

    def add(self, c: Any) -> None:
        """Assume `c` (no fork).  Used for input domains and for followed decisions."""
        self.s.add(c)
        self.assumptions.append(c)
        if self.model is not None:
            try:
                if not z3.is_true(self.model.eval(c, model_completion=True)):
                    self.model = None
            except z3.Z3Exception:
                self.model = None

    def _tick(self) -> None:
        self.steps += 1
        if self.steps > self.max_steps:
            raise Budget("decision budget exhausted on one path")

    def fresh(self, prefix: str = "k") -> str:
        self.counter += 1
        return f"{prefix}{self.counter}"

    def ensure_model(self) -> z3.ModelRef:
        if self.model is None:
            r = self._check()
            if r == "unsat":
                raise Infeasible()
            if r != "sat":
                self.stats.unknown += 1
                raise SolverUnknown("path condition")
            self.model = self.s.model()
        return self.model

    # -- decisions -------------------------------------------------------------------------
    def declare_selector(self, zint: Any, values: Any) -> None:
        """An integer selector with a small finite domain that no constraint relates to any other symbol: conditions
        `selector in S` are then decided by domain bookkeeping, the solver only records them."""
        vals = frozenset(int(v) for v in values)
        self.add(z3.Or([zint == v for v in sorted(vals)]))
        self.domains[zint.get_id()] = vals
        self._keep.append(zint)

    def branch_sel(self, cond: Any, var_id: int, true_set: Any, negated: bool) -> bool:
        """branch() for a condition of the form (selector in true_set) [xor negated]."""
        dom = self.domains.get(var_id)
        if dom is None:
            return self.branch(cond)
        self._tick()
        inside = dom & true_set
        outside = dom - true_set
        t_dom, f_dom = (outside, inside) if negated else (inside, outside)
        if not f_dom:
            return True
        if not t_dom:
            return False
        if self.pos < len(self.prefix):
            d = self.prefix[self.pos]
            if not isinstance(d, bool):
                raise Unsupported("non-deterministic re-execution (expected branch decision)")
            self.pos += 1
        else:
            d = True
            self.pending.append(self.prefix + [False])
            self.prefix.append(True)
            self.pos += 1
            self.stats.decisions += 1
        self.domains[var_id] = t_dom if d else f_dom
        c = cond if d else z3.Not(cond)
        self.s.add(c)
        self.assumptions.append(c)
        self.model = None
        return d

    def branch(self, cond: Any) -> bool:
        """Decide a boolean z3 term; forks when both outcomes are feasible."""
        if isinstance(cond, bool):
            return cond
        self._tick()  # every proxy-level decision counts: a loop that makes no progress runs into the step budget
        if self.pins:
            cond = z3.substitute(cond, *self.pins)
        cond = z3.simplify(cond)
        if z3.is_true(cond):
            return True
        if z3.is_false(cond):
            return False
        # a condition already decided on this path (same term) needs neither a query nor a decision
        known = self.decided.get(cond.get_id())
        if known is not None:
            return known
        if self.pos < len(self.prefix):
            d = self.prefix[self.pos]
            if not isinstance(d, bool):
                raise Unsupported("non-deterministic re-execution (expected branch decision)")
            self.pos += 1
            self.add(cond if d else z3.Not(cond))
            self.decided[cond.get_id()] = d
            self._keep.append(cond)
            return d
        m = self.ensure_model()
        d0 = z3.is_true(m.eval(cond, model_completion=True))
        other = z3.Not(cond) if d0 else cond
        r = self._check(other)
        self.stats.decisions += 1
        if r == "sat":
            self.pending.append(self.prefix + [not d0])
        elif r != "unsat":
            # undecided: explore it too; such a path is flagged and can never prove anything
            self.stats.unknown += 1
            self.pending.append(self.prefix + [not d0])
        self.prefix.append(d0)
        self.pos += 1
        if r == "unsat":
            self.implied += 1
        self.s.add(cond if d0 else z3.Not(cond))
        self.assumptions.append(cond if d0 else z3.Not(cond))
        self.decided[cond.get_id()] = d0
        self._keep.append(cond)
        return d0

    def realize(self, z: Any, cap: int = 80) -> Fraction:
        """Concrete value of a numeric term; enumerates its domain (one path per value)."""
        if self.pins:
            z = z3.substitute(z, *self.pins)
        z = z3.simplify(z)
        v = frac_of(z)
        if v is not None:
            return v
        self._tick()
        excl: List[Fraction] = []
        if self.pos < len(self.prefix):
            d = self.prefix[self.pos]
            if isinstance(d, bool):
                raise Unsupported("non-deterministic re-execution (expected pick decision)")
            if d[0] == "nb":
                # the run that scheduled this prefix found the symbol unbounded here (and may have caught that)
                self.pos += 1
                raise NeedsBound("unbounded symbol needs a concrete value")
            if d[0] == "pick":
                self.pos += 1
                self.add(z == RV(d[1]))
                self._pin(z, d[1])
                return d[1]
            # ("excl", [...]) is always the last element of a scheduled prefix
            excl = list(d[1])
            self.prefix.pop()
        if len(excl) >= cap:
            self.prefix.append(("nb", 0))
            self.pos += 1
            raise NeedsBound("domain larger than the realisation cap")
        if not excl:
            big = RV(10**7)
            if self._check(z3.Or(z > big, z < -big)) != "unsat":
                # recorded as a decision so that re-executions stay aligned when the caller catches this
                self.prefix.append(("nb", 0))
                self.pos += 1
                raise NeedsBound("unbounded symbol needs a concrete value")
        for e in excl:
            self.add(z != RV(e))
        self.model = None
        r = self._check()
        self.stats.decisions += 1
        if r == "unsat":
            raise Infeasible()
        if r != "sat":
            self.stats.unknown += 1
            raise SolverUnknown("realize")
        m = self.s.model()
        val = frac_of(m.eval(z, model_completion=True))
        if val is None:
            raise Unsupported("irrational model value")
        self.pending.append(self.prefix[: self.pos] + [("excl", excl + [val])])
        self.prefix.append(("pick", val))
        self.pos += 1
        self.add(z == RV(val))
        self._pin(z, val)
        return val

    def norm(self, t: Any) -> Any:
        """simplify(t) with the symbols realised on this path replaced by their values."""
        if self.pins:
            t = z3.substitute(t, *self.pins)
        return z3.simplify(t)

    def _pin(self, z: Any, val: Fraction) -> None:
        if z3.is_const(z) and z.decl().kind() == z3.Z3_OP_UNINTERPRETED:
            self.pins.append((z, RV(val)))

    def choose(self, n: int, label: str = "c") -> int:
        """A symbolic selector in range(n), realised immediately (exhaustive case split)."""
        if n <= 0:
            raise Unsupported("choose from empty")
        if n == 1:
            return 0
        z = z3.Int(self.fresh(label))
        self.add(z3.And(z >= 0, z < n))
        return int(self.realize(z3.ToReal(z), cap=max(80, n + 1)))

    # -- final queries -----------------------------------------------------------------------
    def query(self, *conds: Any, timeout: int = QUERY_TIMEOUT_MS):
        """sat?(path condition and conds).  Returns ('sat', model) / ('unsat', None) / ('unknown', None)."""
        self.s.push()
        try:
            for c in conds:
                self.s.add(c)
            r = self._check(timeout=timeout)
            if r == "sat":
                return "sat", self.s.model()
            if r == "unsat":
                return "unsat", None
            self.stats.unknown += 1
            return "unknown", None
        finally:
            self.s.pop()

    def query_lazy(self, conds: List[Any], axioms: List[Any], timeout: int = QUERY_TIMEOUT_MS):
        """query(conds + axioms), asking first without the axioms (unsat without them is unsat with them)."""
        r, m = self.query(*conds, timeout=timeout)
        if r == "sat" and axioms:
            return self.query(*conds, *axioms, timeout=timeout)
        return r, m

    def valid(self, prop: Any, timeout: int = QUERY_TIMEOUT_MS):
        """Is `prop` true for every value on this path?  ('valid', None) / ('cex', model) / ('unknown', None)"""
        prop = z3.simplify(prop) if not isinstance(prop, bool) else prop
        if prop is True or (not isinstance(prop, bool) and z3.is_true(prop)):
            return "valid", None
        if prop is False:
            prop = z3.BoolVal(False)
        r, m = self.query(z3.Not(prop), timeout=timeout)
        return {"unsat": "valid", "sat": "cex", "unknown": "unknown"}[r], m


def cur() -> Ctx:
    c = Ctx.cur
    if c is None:
        raise Unsupported("proxy used outside an exploration")
    return c


# ------------------------------------------------------------------------------------------------
# proxies
# ------------------------------------------------------------------------------------------------


class SymBool:
    __slots__ = ("z", "sel")

    def __init__(self, z: Any, sel: Any = None):
        self.z = z
        self.sel = sel  # (selector ast id, frozenset of values, negated) when the condition is 'selector in set'

    def __bool__(self) -> bool:
        if self.sel is not None:
            return cur().branch_sel(self.z, *self.sel)
        return cur().branch(self.z)

    def __invert__(self) -> "SymBool":
        if self.sel is not None:
            return SymBool(z3.Not(self.z), (self.sel[0], self.sel[1], not self.sel[2]))
        return SymBool(z3.Not(self.z))

    def __and__(self, o: Any) -> Any:
        if isinstance(o, SymBool):
            return SymBool(z3.And(self.z, o.z))
        if isinstance(o, bool):
            return self if o else False
        return NotImplemented

    __rand__ = __and__

    def __or__(self, o: Any) -> Any:
        if isinstance(o, SymBool):
            return SymBool(z3.Or(self.z, o.z))
        if isinstance(o, bool):
            return True if o else self
        return NotImplemented

    __ror__ = __or__

    def __eq__(self, o: Any) -> Any:
        if isinstance(o, SymBool):
            return SymBool(self.z == o.z)
        if isinstance(o, bool):
            return SymBool(self.z if o else z3.Not(self.z))
        return NotImplemented

    def __hash__(self) -> int:
        return hash(bool(self))

    def __repr__(self) -> str:
        return "SymBool"


_CMP_MEMO: dict = {}


def _nonfinite_float(o: Any) -> bool:
    t = type(o)
    if t is SymNum or t is SymInt or t is SymBool:
        return False
    return isinstance(o, float) and (o != o or o in (float("inf"), float("-inf")))


def _tag_and(a: Any, b: Any) -> Any:
    if a is True:
        return b
    if b is True:
        return a
    if a is False or b is False:
        return False
    return z3.And(a, b)


_INT64 = 2**63


def _npy_of(o: Any) -> Any:
    """'i64' / 'f64' for numpy scalars (proxy or concrete), None for Python numbers."""
    if type(o) is SymNum or isinstance(o, SymNum):
        return o.npy
    if type(o).__module__ == "numpy":
        import numpy as _np

        if isinstance(o, _np.integer):
            return "i64"
        if isinstance(o, _np.floating):
            return "f64"
    return None


class SymNum:
    """A symbolic Python number: z3 Real term + a (possibly symbolic) 'is a Python int' tag.

    tag True  -> behaves as a Python `int` (the value is constrained integral by its creator)
    tag False -> behaves as a Python `float` (modelled as an exact real)
    tag z3 Bool -> decided lazily, only where Python's behaviour depends on the type.
    """

    __slots__ = ("z", "tag", "npy")

    def __init__(self, z: Any, tag: Any = False, npy: Any = None):
        self.z = z
        self.tag = tag
        # None: a Python number.  "i64" / "f64": a numpy scalar (what np.absolute / np.power hand back): int64 arithmetic
        # wraps, a Python int operand beyond int64 raises OverflowError (numpy >= 2), division by zero gives inf / nan
        # instead of raising, and isinstance(x, int) is False.  The kind is concrete on a path (the code path decides it).
        self.npy = npy

    # isinstance(x, int) / isinstance(x, float) consult __class__ when type(x) does not match
    @property  # type: ignore[misc]
    def __class__(self):  # noqa: D401
        if self.npy is not None:
            import numpy as _np

            return _np.int64 if self.npy == "i64" else _np.float64
        return int if self.is_int() else float

    def is_int(self) -> bool:
        t = self.tag
        if isinstance(t, bool):
            return t
        return cur().branch(t)

    # -- lifting ------------------------------------------------------------------------------
    @staticmethod
    def lift(o: Any):
        """-> (z, tag) or None when `o` is not a number."""
        if type(o) is SymNum or isinstance(o, SymNum):
            return o.z, o.tag
        if isinstance(o, bool):
            return z3.RealVal(int(o)), True
        if isinstance(o, int):
            return z3.RealVal(o), True
        if isinstance(o, float):
            return RV(o), False
        if isinstance(o, Fraction):
            return RV(o), o.denominator == 1
        # numpy scalars
        item = getattr(o, "item", None)
        if item is not None and getattr(o, "shape", None) == ():
            return SymNum.lift(item())
        return None

    def _nonfinite(self, o: Any, op: str, swap: bool) -> Any:
        """IEEE result of <finite symbolic> op <inf/nan> (or swapped); the proxy itself is always finite."""
        if o != o:
            return o
        if op in ("add",):
            return o
        if op == "sub":
            return o if swap else -o
        if op == "div" and not swap:
            return 0.0  # finite / +-inf (the sign of the zero is not modelled)
        pos = cur().branch(self.z > 0)
        if op == "mul":
            if pos:
                return o
            if cur().branch(self.z < 0):
                return -o
            return float("nan")
        if op == "div":
            if pos:
                return o
            if cur().branch(self.z < 0):
                return -o
            raise ZeroDivisionError("float division by zero")
        raise Unsupported(f"non-finite operand in {op}")

    def _bin(self, o: Any, f: Callable[[Any, Any], Any], int_closed: bool = True, swap: bool = False, op: str = ""):
        if _nonfinite_float(o):
            return self._nonfinite(o, op, swap)
        lo = SymNum.lift(o)
        if lo is None:
            return NotImplemented
        oz, ot = lo
        a, b = (oz, self.z) if swap else (self.z, oz)
        if self.npy is not None or _npy_of(o) is not None:
            return self._np_bin(o, oz, ot, f(a, b))
        tag = _tag_and(self.tag, ot) if int_closed else False
        return SymNum(f(a, b), tag)

    def _np_bin(self, o: Any, oz: Any, ot: Any, r: Any) -> "SymNum":
        """+ - * with a numpy scalar on either side (numpy >= 2 promotion rules)."""
        c = cur()
        a_int = self.is_int()
        b_int = ot if isinstance(ot, bool) else c.branch(ot)
        if a_int and b_int:
            for z, k in ((self.z, self.npy), (oz, _npy_of(o))):
                if k is None and c.branch(z3.Or(z >= _INT64, z < -_INT64)):
                    raise OverflowError("Python int too large to convert to C long")
            if not c.branch(z3.And(r < _INT64, r >= -_INT64)):
                k = z3.ToInt((r + _INT64) / (2 * _INT64))
                r = r - z3.ToReal(k) * (2 * _INT64)  # int64 wraps (numpy only warns)
            return SymNum(r, True, "i64")
        return SymNum(r, False, "f64")

    def _np_div(self, num: Any, den: Any) -> Any:
        c = cur()
        if c.branch(den == 0):
            if c.branch(num > 0):
                return float("inf")
            if c.branch(num < 0):
                return float("-inf")
            return float("nan")
        return SymNum(num / den, False, "f64")

    def __add__(self, o):
        return self._bin(o, lambda a, b: a + b, op="add")

    def __radd__(self, o):
        return self._bin(o, lambda a, b: a + b, swap=True, op="add")

    def __sub__(self, o):
        return self._bin(o, lambda a, b: a - b, op="sub")

    def __rsub__(self, o):
        return self._bin(o, lambda a, b: a - b, swap=True, op="sub")

    def __mul__(self, o):
        return self._bin(o, lambda a, b: a * b, op="mul")

    def __rmul__(self, o):
        return self._bin(o, lambda a, b: a * b, swap=True, op="mul")

    def __neg__(self):
        return SymNum(-self.z, self.tag, self.npy)

    def __pos__(self):
        return self

    def __abs__(self):
        return SymNum(z3.If(self.z < 0, -self.z, self.z), self.tag, self.npy)

    def _div(self, num: Any, den: Any):
        if cur().branch(den == 0):
            raise ZeroDivisionError("division by zero")
        return num / den

    def __truediv__(self, o):
        if _nonfinite_float(o):
            return self._nonfinite(o, "div", False)
        lo = SymNum.lift(o)
        if lo is None:
            return NotImplemented
        if self.npy is not None or _npy_of(o) is not None:
            return self._np_div(self.z, lo[0])
        return SymNum(self._div(self.z, lo[0]), False)

    def __rtruediv__(self, o):
        if _nonfinite_float(o):
            return self._nonfinite(o, "div", True)
        lo = SymNum.lift(o)
        if lo is None:
            return NotImplemented
        if self.npy is not None or _npy_of(o) is not None:
            return self._np_div(lo[0], self.z)
        return SymNum(self._div(lo[0], self.z), False)

    @staticmethod
    def _floor(q: Any) -> Any:
        return z3.ToReal(z3.ToInt(q))

    def __floordiv__(self, o):
        lo = SymNum.lift(o)
        if lo is None:
            return NotImplemented
        if self.npy is not None or _npy_of(o) is not None:
            raise Unsupported("// or % with a numpy scalar")
        return SymNum(SymNum._floor(self._div(self.z, lo[0])), _tag_and(self.tag, lo[1]))

    def __rfloordiv__(self, o):
        lo = SymNum.lift(o)
        if lo is None:
            return NotImplemented
        if self.npy is not None or _npy_of(o) is not None:
            raise Unsupported("// or % with a numpy scalar")
        return SymNum(SymNum._floor(self._div(lo[0], self.z)), _tag_and(self.tag, lo[1]))

    def __mod__(self, o):
        lo = SymNum.lift(o)
        if lo is None:
            return NotImplemented
        if self.npy is not None or _npy_of(o) is not None:
            raise Unsupported("// or % with a numpy scalar")
        q = self._div(self.z, lo[0])
        return SymNum(self.z - lo[0] * SymNum._floor(q), _tag_and(self.tag, lo[1]))

    def __rmod__(self, o):
        lo = SymNum.lift(o)
        if lo is None:
            return NotImplemented
        if self.npy is not None or _npy_of(o) is not None:
            raise Unsupported("// or % with a numpy scalar")
        q = self._div(lo[0], self.z)
        return SymNum(lo[0] - self.z * SymNum._floor(q), _tag_and(self.tag, lo[1]))

    def __pow__(self, o, mod=None):
        if mod is not None:
            raise Unsupported("3-arg pow")
        lo = SymNum.lift(o)
        if lo is None:
            return NotImplemented
        if self.npy is not None or _npy_of(o) is not None:
            raise Unsupported("** with a numpy scalar")
        return py_pow(self.z, self.tag, lo[0], lo[1])

    def __rpow__(self, o, mod=None):
        lo = SymNum.lift(o)
        if lo is None:
            return NotImplemented
        if self.npy is not None or _npy_of(o) is not None:
            raise Unsupported("** with a numpy scalar")
        return py_pow(lo[0], lo[1], self.z, self.tag)

    # -- comparisons ----------------------------------------------------------------------------
    def _cmp(self, o: Any, f: Callable[[Any, Any], Any], default: Any):
        if _nonfinite_float(o):
            if o != o:
                return f(0, 1) is True and f(1, 0) is True  # only != holds against NaN
            big = 1 if o > 0 else -1
            return bool(f(0, big))  # any finite value compares with +-inf like 0 does
        if type(o) is int and -1 <= o <= 1 << 15:
            # comparisons with small literal ints dominate the parser/tokenizer runs: memoise the terms
            key = (self.z.get_id(), o, f.__code__.co_code)
            hit = _CMP_MEMO.get(key)
            if hit is None:
                hit = (self.z, f(self.z, z3.RealVal(o)))
                _CMP_MEMO[key] = hit
            return SymBool(hit[1])
        lo = SymNum.lift(o)
        if lo is None:
            return default
        return SymBool(f(self.z, lo[0]))

    def __eq__(self, o):  # type: ignore[override]
        return self._cmp(o, lambda a, b: a == b, NotImplemented)

    def __ne__(self, o):  # type: ignore[override]
        return self._cmp(o, lambda a, b: a != b, NotImplemented)

    def __lt__(self, o):
        return self._cmp(o, lambda a, b: a < b, NotImplemented)

    def __le__(self, o):
        return self._cmp(o, lambda a, b: a <= b, NotImplemented)

    def __gt__(self, o):
        return self._cmp(o, lambda a, b: a > b, NotImplemented)

    def __ge__(self, o):
        return self._cmp(o, lambda a, b: a >= b, NotImplemented)

    def __bool__(self) -> bool:
        return cur().branch(self.z != 0)

    # -- realisation (C-level consumers) --------------------------------------------------------
    def concrete(self):
        """The Python value (int or float) on this path; enumerates the domain."""
        v = cur().realize(self.z)
        if self.is_int():
            if v.denominator != 1:
                raise Unsupported("int-tagged symbol with a fractional value")
            return int(v)
        return float(v)

    def __hash__(self) -> int:
        return hash(self.concrete())

    def _trunc_value(self) -> int:
        """int(x): only the truncated value is needed, so only it is enumerated (bounded whenever x is)."""
        if isinstance(self.tag, bool) and self.tag:
            return int(self.concrete())
        t = z3.If(self.z >= 0, z3.ToReal(z3.ToInt(self.z)), -z3.ToReal(z3.ToInt(-self.z)))
        return int(cur().realize(t))

    def __int__(self) -> int:
        return self._trunc_value()

    def __trunc__(self) -> int:
        return self._trunc_value()

    def __index__(self) -> int:
        if not self.is_int():
            raise TypeError("'float' object cannot be interpreted as an integer")
        return int(self.concrete())

    def __float__(self) -> float:
        return float(self.concrete())

    def __round__(self, n=None):
        return round(self.concrete(), n) if n is not None else round(self.concrete())

    def __floor__(self):
        import math

        return math.floor(self.concrete())

    def __ceil__(self):
        import math

        return math.ceil(self.concrete())

    def __str__(self) -> str:
        return str(self.concrete())

    def __repr__(self) -> str:
        return "SymNum"

    def __format__(self, spec: str) -> str:
        return format(self.concrete(), spec)

    def is_integer(self) -> bool:
        return cur().branch(z3.IsInt(self.z))


def py_pow(bz: Any, btag: Any, ez: Any, etag: Any) -> SymNum:
    """Python's `**` for real base/exponent where the exponent is (or can be realised to) an integer."""
    c = cur()
    e = c.realize(ez)
    if e.denominator != 1:
        raise Unsupported("symbolic power with a non-integer exponent")
    n = int(e)
    both_int = _tag_and(btag, etag)
    if n >= 0:
        r: Any = z3.RealVal(1)
        for _ in range(n):
            r = r * bz
        return SymNum(r, both_int)
    if c.branch(bz == 0):
        raise ZeroDivisionError("0.0 cannot be raised to a negative power")
    r = z3.RealVal(1)
    for _ in range(-n):
        r = r * bz
    return SymNum(1 / r, False)


class SymInt(SymNum):
    """Integer selector (token kinds etc.) that additionally supports `&` with a concrete bit mask."""

    __slots__ = ()

    def __init__(self, z: Any):
        super().__init__(z, True)

    _MASKS: dict = {}

    def _mask(self, o: Any):
        if type(o) is not int:
            return NotImplemented
        key = (self.z.get_id(), o)
        hit = SymInt._MASKS.get(key)
        if hit is None:
            bits = [1 << k for k in range(32) if o & (1 << k)]
            if not bits:
                return 0
            # (the key keeps self.z alive, so the id stays unique)
            hit = (self.z, z3.If(z3.Or([self.z == b for b in bits]), self.z, z3.RealVal(0)))
            SymInt._MASKS[key] = hit
        return SymNum(hit[1], True)

    def __and__(self, o):
        return self._mask(o)

    def __rand__(self, o):
        return self._mask(o)


class MaskedSel:
    """`mask & selector` for a one-hot selector: only its truthiness / comparison with 0 is meaningful."""

    __slots__ = ("sel", "allowed", "term")

    def __init__(self, sel: "SelInt", allowed: Any, term: Any):
        self.sel, self.allowed, self.term = sel, allowed, term

    def _b(self, negated: bool) -> SymBool:
        return SymBool(z3.Not(self.term) if negated else self.term, (self.sel.vid, self.allowed, negated))

    def __ne__(self, o: Any) -> Any:  # type: ignore[override]
        return self._b(False) if type(o) is int and o == 0 else NotImplemented

    def __eq__(self, o: Any) -> Any:  # type: ignore[override]
        return self._b(True) if type(o) is int and o == 0 else NotImplemented

    def __bool__(self) -> bool:
        return bool(self._b(False))

    __hash__ = None  # type: ignore[assignment]


class SelInt(SymInt):
    """An integer selector declared with Ctx.declare_selector (one-hot token kinds etc.)."""

    __slots__ = ("zint", "vid")
    _TERMS: dict = {}

    def __init__(self, zint: Any):
        super().__init__(z3.ToReal(zint))
        self.zint = zint
        self.vid = zint.get_id()

    def _term(self, key: Any, build: Callable[[], Any]) -> Any:
        k = (self.vid, key)
        hit = SelInt._TERMS.get(k)
        if hit is None:
            hit = (self.zint, build())
            SelInt._TERMS[k] = hit
        return hit[1]

    def is_in(self, values: Any) -> SymBool:
        vs = frozenset(values)
        return SymBool(self._term(("in", vs), lambda: z3.Or([self.zint == v for v in sorted(vs)])), (self.vid, vs, False))

    def __eq__(self, o: Any) -> Any:  # type: ignore[override]
        if type(o) is int:
            return SymBool(self._term(("eq", o), lambda: self.zint == o), (self.vid, frozenset((o,)), False))
        return SymInt.__eq__(self, o)

    def __ne__(self, o: Any) -> Any:  # type: ignore[override]
        if type(o) is int:
            return SymBool(z3.Not(self._term(("eq", o), lambda: self.zint == o)), (self.vid, frozenset((o,)), True))
        return SymInt.__ne__(self, o)

    def _mask(self, o: Any) -> Any:
        if type(o) is not int:
            return NotImplemented
        bits = frozenset(1 << k for k in range(32) if o & (1 << k))
        if not bits:
            return 0
        return MaskedSel(self, bits, self._term(("in", bits), lambda: z3.Or([self.zint == b for b in sorted(bits)])))

    def __and__(self, o: Any) -> Any:
        return self._mask(o)

    def __rand__(self, o: Any) -> Any:
        return self._mask(o)

    __hash__ = SymInt.__hash__


# ------------------------------------------------------------------------------------------------
# exploration
# ------------------------------------------------------------------------------------------------


class PathResult:
    __slots__ = ("status", "value", "prefix", "detail")

    def __init__(self, status: str, value: Any = None, prefix: Any = None, detail: str = ""):
        self.status = status  # ok | unsupported | needs_bound | budget | unknown
        self.value = value
        self.prefix = prefix
        self.detail = detail


_SOLVER: Optional[z3.Solver] = None
PATH_WALL_S = 90.0
_WD: dict = {"thread": None, "pid": None, "deadline": None, "ctx": None}


_WD_LOCK = threading.Lock()


def _wd_loop() -> None:
    while True:
        time.sleep(0.5)
        with _WD_LOCK:
            d = _WD["deadline"]
            if d is not None and time.time() > d:
                _WD["deadline"] = None
                _WD["fired"] = True
                try:
                    _WD["ctx"].interrupt()
                except Exception:
                    pass


def _flush_cancel(s: Any) -> None:
    """An interrupt that arrives when no check is running stays pending in the z3 context ('push canceled', 'there is no
    current model') until the next check consumes it: consume it with a throw-away check on an empty scope."""
    for _ in range(2):
        try:
            s.push()
            s.pop()
            return
        except z3.Z3Exception:
            try:
                s.set("timeout", 1000)
                s.check()
            except z3.Z3Exception:
                pass


def _watch(zctx: Any, seconds: float) -> None:
    """One watchdog thread per process (restarted after fork): interrupts a solver call that overstays."""
    import os

    global _WD_LOCK
    if _WD["pid"] != os.getpid() or _WD["thread"] is None or not _WD["thread"].is_alive():
        if _WD["pid"] != os.getpid():
            _WD_LOCK = threading.Lock()  # a lock copied by fork may be held by a thread that does not exist here
            _WD.pop("fired", None)
        t = threading.Thread(target=_wd_loop, daemon=True)
        _WD.update(thread=t, pid=os.getpid())
        t.start()
    _WD["ctx"] = zctx
    _WD["deadline"] = time.time() + seconds


def _on_alarm(signum: Any, frame: Any) -> None:
    raise Budget("wall-clock budget of one path exhausted (code under test does not terminate?)")


def _arm(seconds: float) -> None:
    """Per-path wall-clock guard (main thread only): a path that never returns becomes a budget-cut path."""
    try:
        if threading.current_thread() is threading.main_thread():
            signal.signal(signal.SIGALRM, _on_alarm)
            signal.setitimer(signal.ITIMER_REAL, seconds)
    except (ValueError, OSError):
        pass



def _guard_z3(fn: Any) -> Any:
    """A z3 exception inside an engine call (a pending interrupt: 'canceled', 'model is not available') must never look
    like an exception of the code under test: it becomes the engine signal SolverUnknown (a BaseException)."""
    import functools

    @functools.wraps(fn)
    def w(*a: Any, **k: Any) -> Any:
        try:
            return fn(*a, **k)
        except z3.Z3Exception as e:
            raise SolverUnknown(f"z3: {str(e)[:60]}")

    return w


for _name in ("branch", "branch_sel", "realize", "choose", "add", "norm", "ensure_model", "query", "query_lazy", "valid"):
    if hasattr(Ctx, _name):
        setattr(Ctx, _name, _guard_z3(getattr(Ctx, _name)))


def solver() -> z3.Solver:
    global _SOLVER
    if _SOLVER is None:
        _SOLVER = z3.Solver()
    return _SOLVER


def explore(
    harness: Callable[[Ctx], Any],
    stats: Optional[Stats] = None,
    max_paths: int = 200000,
    max_steps: int = 20000,
    deadline: Optional[float] = None,
    order: str = "dfs",
) -> List[PathResult]:
    """Run `harness` on every feasible path.  Returns one PathResult per completed/aborted path."""
    stats = stats if stats is not None else Stats()
    if deadline is None:
        # inside a worker: never explore past the run's wall budget (what is left is reported as budget-cut)
        from . import core as _core

        deadline = _core.deadline()
    s = solver()
    stack: List[list] = [[]]
    out: List[PathResult] = []
    n = 0
    while stack:
        if n >= max_paths or (deadline is not None and time.time() > deadline):
            stats.budget += 1
            out.append(PathResult("budget", detail=f"{len(stack)} prefixes left unexplored"))
            break
        # dfs: newest prefix first; bfs: shortest (oldest) first - under a budget this explores the short
        # paths (few retries) before the long ones
        prefix = stack.pop() if order == "dfs" else stack.pop(0)
        _flush_cancel(s)
        s.push()
        c = Ctx(s, prefix, stats, max_steps=max_steps)
        Ctx.cur = c
        _arm(PATH_WALL_S)
        try:
            v = harness(c)
            _arm(0)
            out.append(PathResult("ok", v, c.prefix))
            stats.paths += 1
            n += 1
        except Infeasible:
            stats.infeasible += 1
        except Unsupported as e:
            stats.unsupported += 1
            out.append(PathResult("unsupported", prefix=c.prefix, detail=str(e)))
            n += 1
        except NeedsBound as e:
            stats.needs_bound += 1
            out.append(PathResult("needs_bound", prefix=c.prefix, detail=str(e)))
            n += 1
        except Budget as e:
            stats.budget += 1
            out.append(PathResult("budget", prefix=c.prefix, detail=str(e)))
            n += 1
        except SolverUnknown as e:
            out.append(PathResult("unknown", prefix=c.prefix, detail=str(e)))
            n += 1
        except z3.Z3Exception as e:
            # a late watchdog interrupt hit a call outside _check (model retrieval, simplify): the path is inconclusive
            stats.unknown += 1
            out.append(PathResult("unknown", prefix=c.prefix, detail=f"z3: {str(e)[:80]}"))
            n += 1
        finally:
            _arm(0)
            Ctx.cur = None
            s.pop()
        stack.extend(c.pending)
    return out


def model_value(m: z3.ModelRef, z: Any) -> Optional[Fraction]:
    return frac_of(m.eval(z, model_completion=True))
