"""Entry point: python -m vf.cli <ID> [--tier quick|thorough] [--replay PATH]"""
from __future__ import annotations

import argparse
import importlib
import os
import sys
import traceback

REGISTRY = {
    "C01": ("vf.props.value", "C01"),
    "C02": ("vf.props.value", "C02"),
    "C11": ("vf.props.tokenizer", None),
    "C12": ("vf.props.history", None),
    "C13": ("vf.props.clone", None),
    "C16": ("vf.props.terms", None),
    "C17": ("vf.props.problems", None),
    "C18": ("vf.props.layout", None),
    "C14": ("vf.props.treeprops", "C14"),
    "C15": ("vf.props.treeprops", "C15"),
    "C03": ("vf.props.parser", "C03"),
    "C08": ("vf.props.documented", None),
    "C09": ("vf.props.sequences", None),
    "C10": ("vf.props.parser", "C10"),
    "C04": ("vf.props.printer", None),
    "C05": ("vf.props.evaluate", None),
    "C06": ("vf.props.rules_struct", "C06"),
    "C07": ("vf.props.rules_struct", "C07"),
}


def main() -> int:
    ap = argparse.ArgumentParser()
    ap.add_argument("prop")
    ap.add_argument("--tier", default=os.environ.get("VERIF_TIER", "quick"))
    ap.add_argument("--replay", default=None)
    a = ap.parse_args()
    tier = a.tier if a.tier in ("quick", "thorough") else "quick"
    if a.prop not in REGISTRY:
        print(f"HARNESS-ERROR unknown property {a.prop}")
        return 3
    modname, arg = REGISTRY[a.prop]
    try:
        mod = importlib.import_module(modname)
        if a.replay:
            from vf.replay import replay_file

            return replay_file(a.replay)
        return mod.run(arg, tier) if arg else mod.run(tier)
    except SystemExit:
        raise
    except BaseException as e:
        traceback.print_exc()
        print(f"HARNESS-ERROR {type(e).__name__}: {e}")
        return 3


if __name__ == "__main__":
    sys.exit(main())
