"""Replay one recorded counterexample against the real code, without the engine:  ./check <ID> --replay <path>

Exit 1 and a line 'REPRODUCED ...' when the violation shows again, exit 0 otherwise."""
from __future__ import annotations

import importlib
import json
from typing import Any, Dict, Tuple

KINDS = {
    "rule_step": "vf.props.value",
    "rule_struct": "vf.props.rules_struct",
    "schema": "vf.props.documented",
    "sequence": "vf.props.sequences",
    "tokens": "vf.props.parser",
    "literal": "vf.props.parser",
    "text": "vf.props.parser_state",
    "state": "vf.props.parser_state",
    "string": "vf.props.tokenizer",
    "history": "vf.props.history",
    "clone": "vf.props.clone",
    "tree": "vf.props.treeprops",
    "terms": "vf.props.terms",
    "problem": "vf.props.problems",
    "layout": "vf.props.layout",
    "print": "vf.props.printer",
    "evaluate": "vf.props.evaluate",
}


def replay_dict(rec: Dict[str, Any]) -> Tuple[bool, str]:
    mod = importlib.import_module(KINDS[rec["kind"]])
    return mod.replay_record(rec)


def replay_file(path: str) -> int:
    with open(path) as f:
        data = json.load(f)
    rec = data.get("replay", data)
    rec.setdefault("property", data.get("property"))
    ok, msg = replay_dict(rec)
    if ok:
        print(f"REPRODUCED property={data.get('property')} {msg[:600]}")
        return 1
    print("not reproduced on the current tree")
    return 0
