"""Expression skeletons, builders, signatures and the structure audit.

A skeleton is a nested tuple:
  ("const", slot)  ("var", "x")  ("neg", c)  ("sgn", c)  ("abs", c)  ("fact", c)
  ("add"|"sub"|"mul"|"div"|"pow"|"eq", l, r)
Payload slots are filled by a *provider* (symbolic: fresh solver variables; concrete: numbers from a
model), so the same harness code builds the symbolic tree and its concrete replay.
Trees are always built through mathy_core's public constructors.
"""
from __future__ import annotations

from fractions import Fraction
from typing import Any, Callable, Dict, Iterator, List, Optional, Tuple

import z3

from mathy_core import expressions as E

from .symx import Ctx, SymNum, Unsupported, RV, frac_of

BIN = {
    "add": E.AddExpression,
    "sub": E.SubtractExpression,
    "mul": E.MultiplyExpression,
    "div": E.DivideExpression,
    "pow": E.PowerExpression,
    "eq": E.EqualExpression,
}
UN = {
    "neg": E.NegateExpression,
    "sgn": E.SgnExpression,
    "abs": E.AbsExpression,
    "fact": E.FactorialExpression,
}
KIND_OF = {v: k for k, v in list(BIN.items()) + list(UN.items())}
KIND_OF[E.ConstantExpression] = "const"
KIND_OF[E.VariableExpression] = "var"

EXP_RANGE = (-2, 4)
FACT_RANGE = (0, 5)
GRID_FULL = (
    [Fraction(k) for k in range(-6, 13)]
    + [Fraction(1, 2), Fraction(-1, 2), Fraction(3, 2), Fraction(5, 2), Fraction(1, 4), Fraction(-3, 2), Fraction(3, 100000),
       Fraction(40000)]
)
GRID_QUICK = [Fraction(k) for k in (-2, -1, 0, 1, 2, 3, 4, 6, 12)] + [Fraction(1, 2), Fraction(3, 2), Fraction(3, 100000)]
GRID_TINY = [Fraction(k) for k in (-2, 0, 1, 3, 6)] + [Fraction(1, 2)]
ACTIVE = {"grid": GRID_QUICK, "name": "quick"}


def use_grid(name: str) -> None:
    ACTIVE["grid"] = GRID_FULL if name == "full" else GRID_QUICK
    ACTIVE["name"] = name


def grid_text() -> str:
    return "{" + ", ".join(str(float(g)) if g.denominator != 1 else str(g) for g in ACTIVE["grid"]) + "}"


def kind(node: Any) -> str:
    for cls in type(node).__mro__:
        if cls in KIND_OF:
            return KIND_OF[cls]
    return type(node).__name__


# ------------------------------------------------------------------------------------------------
# enumeration
# ------------------------------------------------------------------------------------------------


def _renumber(sk: Any, counter: List[int]) -> Any:
    if sk[0] == "const":
        counter[0] += 1
        return ("const", counter[0] - 1)
    if sk[0] in ("var", "lit"):
        return sk
    return (sk[0],) + tuple(_renumber(c, counter) for c in sk[1:])


def renumber(sk: Any) -> Any:
    return _renumber(sk, [0])


def enum_trees(
    size: int,
    binops: Tuple[str, ...] = ("add", "sub", "mul", "div", "pow"),
    unops: Tuple[str, ...] = ("neg",),
    variables: Tuple[str, ...] = ("x", "y"),
    _memo: Optional[dict] = None,
) -> List[Any]:
    """All skeletons with exactly `size` nodes (const slots numbered 0.. afterwards by renumber)."""
    memo = _memo if _memo is not None else {}
    key = size
    if key in memo:
        return memo[key]
    out: List[Any] = []
    if size == 1:
        out.append(("const", 0))
        out.extend(("var", v) for v in variables)
    elif size >= 2:
        for u in unops:
            for c in enum_trees(size - 1, binops, unops, variables, memo):
                if u in ("fact", "factL") and c[0] != "const":
                    continue
                out.append((u, c))
        for ls in range(1, size - 1):
            rs = size - 1 - ls
            if rs < 1:
                continue
            for l in enum_trees(ls, binops, unops, variables, memo):
                for r in enum_trees(rs, binops, unops, variables, memo):
                    for b in binops:
                        out.append((b, l, r))
    memo[key] = out
    return out


def enum_upto(n: int, **kw: Any) -> Iterator[Any]:
    memo: dict = {}
    for s in range(1, n + 1):
        for t in enum_trees(s, _memo=memo, **kw):
            yield renumber(t)


def sk_size(sk: Any) -> int:
    if sk[0] in ("const", "var", "lit"):
        return 1
    return 1 + sum(sk_size(c) for c in sk[1:])


def sk_str(sk: Any, vals: Optional[Dict[int, Any]] = None) -> str:
    k = sk[0]
    if k == "const":
        if vals is not None and sk[1] in vals:
            return fmt_num(vals[sk[1]])
        return f"c{sk[1]}"
    if k == "var":
        return sk[1]
    if k == "lit":
        return str(sk[1])
    return "(" + k + " " + " ".join(sk_str(c, vals) for c in sk[1:]) + ")"


def fmt_num(v: Any) -> str:
    if isinstance(v, Fraction):
        return str(v.numerator) if v.denominator == 1 else str(float(v))
    return str(v)


def slot_roles(sk: Any, role: str = "coef", out: Optional[Dict[int, str]] = None) -> Dict[int, str]:
    """slot -> 'coef' | 'exp' (const that is the exponent of a power) | 'fact' (operand of !)."""
    out = out if out is not None else {}
    k = sk[0]
    if k == "const":
        out[sk[1]] = role
    elif k in ("var", "lit"):
        pass
    elif k == "pow":
        slot_roles(sk[1], "coef", out)
        slot_roles(sk[2], "exp" if sk[2][0] == "const" else "coef", out)
    elif k in ("fact", "factL"):
        slot_roles(sk[1], "fact" if sk[1][0] == "const" else "coef", out)
    else:
        for c in sk[1:]:
            slot_roles(c, "coef", out)
    return out


# ------------------------------------------------------------------------------------------------
# providers
# ------------------------------------------------------------------------------------------------


class SymProvider:
    """Fresh solver variables for payload slots.

    mode 'real': coefficients unconstrained reals with a lazy int/float tag;
    mode 'grid': coefficients restricted to GRID (so that realisation terminates);
    exponents: integers in EXP_RANGE (lazy tag); factorial operands: ints in FACT_RANGE.
    """

    def __init__(self, ctx: Ctx, mode: str = "real", prefix: str = "c", exp_range: Optional[Tuple[int, int]] = None):
        self.ctx = ctx
        self.mode = mode
        self.prefix = prefix
        self.exp_range = exp_range or EXP_RANGE
        self.z: Dict[int, Any] = {}
        self.tags: Dict[int, Any] = {}

    _cache: Dict[Any, Any] = {}

    def get(self, slot: int, role: str) -> Any:
        key = (self.prefix, slot, role, self.mode, ACTIVE["name"], self.exp_range)
        ent = SymProvider._cache.get(key)
        if ent is None:
            z = z3.Real(f"{self.prefix}{slot}")
            tag = z3.Bool(f"{self.prefix}{slot}_isint")
            cons = [z3.Implies(tag, z3.IsInt(z))]
            if role == "exp":
                cons.append(z3.And(z3.IsInt(z), z >= self.exp_range[0], z <= self.exp_range[1]))
            elif role == "fact":
                cons.append(z3.And(z3.IsInt(z), z >= FACT_RANGE[0], z <= FACT_RANGE[1]))
                cons.append(tag)
            elif self.mode == "grid":
                cons.append(z3.Or([z == RV(g) for g in ACTIVE["grid"]]))
            elif self.mode == "tiny":
                cons.append(z3.Or([z == RV(g) for g in GRID_TINY]))
            ent = (z, tag, z3.And(cons) if len(cons) > 1 else cons[0])
            SymProvider._cache[key] = ent
        z, tag, con = ent
        self.z[slot] = z
        self.tags[slot] = tag
        self.ctx.add(con)
        return SymNum(z, tag)


class Touched(BaseException):
    """An opaque payload was inspected (so the outcome may depend on payload values)."""


class Opaque:
    """Payload that refuses every operation: used to detect payload-independent outcomes cheaply."""

    def _t(self, *a: Any, **k: Any) -> Any:
        raise Touched()

    __bool__ = __eq__ = __ne__ = __lt__ = __le__ = __gt__ = __ge__ = __hash__ = _t  # type: ignore[assignment]
    __add__ = __radd__ = __sub__ = __rsub__ = __mul__ = __rmul__ = __truediv__ = __rtruediv__ = _t
    __neg__ = __abs__ = __int__ = __float__ = __index__ = __str__ = __repr__ = __format__ = _t  # type: ignore[assignment]
    __mod__ = __rmod__ = __pow__ = __rpow__ = __floordiv__ = __rfloordiv__ = _t

    def __getattr__(self, name: str) -> Any:
        raise Touched()


class OpaqueProvider:
    def get(self, slot: int, role: str) -> Any:
        return Opaque()


class ConcreteProvider:
    def __init__(self, values: Dict[int, Any]):
        self.values = values

    def get(self, slot: int, role: str) -> Any:
        return self.values[slot]


def build(sk: Any, prov: Any, roles: Optional[Dict[int, str]] = None) -> Any:
    roles = roles if roles is not None else slot_roles(sk)
    k = sk[0]
    if k == "const":
        return E.ConstantExpression(prov.get(sk[1], roles[sk[1]]))
    if k == "var":
        return E.VariableExpression(sk[1])
    if k == "lit":
        return E.ConstantExpression(sk[1])
    if k in UN:
        return UN[k](build(sk[1], prov, roles))
    if k.endswith("L") and k[:-1] in UN:  # one-operand node with the operand on the left
        return UN[k[:-1]](build(sk[1], prov, roles), child_on_left=True)
    return BIN[k](build(sk[1], prov, roles), build(sk[2], prov, roles))


def model_payloads(m: Any, prov: SymProvider) -> Dict[int, Any]:
    """Concrete Python numbers (int when tagged int / integral, else float) for every slot."""
    out: Dict[int, Any] = {}
    for slot, z in prov.z.items():
        v = frac_of(m.eval(z, model_completion=True))
        if v is None:
            raise Unsupported("irrational payload in model")
        is_int = z3.is_true(m.eval(prov.tags[slot], model_completion=True))
        out[slot] = int(v) if (is_int and v.denominator == 1) else float(v)
    return out


# ------------------------------------------------------------------------------------------------
# inspection (independent of mathy_core helpers: only left/right/parent and classes)
# ------------------------------------------------------------------------------------------------


def inorder(node: Any) -> List[Any]:
    out: List[Any] = []

    def rec(n: Any) -> None:
        if n is None:
            return
        rec(n.left)
        out.append(n)
        rec(n.right)

    rec(node)
    return out


def preorder(node: Any) -> List[Any]:
    out: List[Any] = []

    def rec(n: Any) -> None:
        if n is None:
            return
        out.append(n)
        rec(n.left)
        rec(n.right)

    rec(node)
    return out


def root_of(n: Any) -> Any:
    seen = 0
    while n.parent is not None:
        n = n.parent
        seen += 1
        if seen > 10000:
            raise AssertionError("parent cycle")
    return n


def payload_repr(v: Any) -> str:
    if type(v) is SymNum or isinstance(v, SymNum):
        return "?"
    return repr(v)


def sig(node: Any, payload: Callable[[Any], str] = payload_repr) -> str:
    """Structural signature (kinds, sides, identifiers, payloads via `payload`)."""
    if node is None:
        return "_"
    k = kind(node)
    if k == "const":
        return f"K[{payload(node.value)}]"
    if k == "var":
        return f"V[{node.identifier}]"
    return f"({k} {sig(node.left, payload)} {sig(node.right, payload)})"


def shape(node: Any) -> str:
    """Signature with payloads wildcarded (used to key findings)."""
    return sig(node, lambda v: "*")


def variables_of(node: Any) -> List[str]:
    return sorted({n.identifier for n in preorder(node) if kind(n) == "var" and n.identifier is not None})


def audit(root: Any) -> List[str]:
    """Structure audit of a result tree.  Returns a list of problems (empty = sound)."""
    problems: List[str] = []
    if root is None:
        return ["result is None"]
    if root.parent is not None:
        problems.append("root has a parent")
    seen: Dict[int, Any] = {}
    stack = [root]
    count = 0
    while stack:
        n = stack.pop()
        count += 1
        if count > 5000:
            problems.append("tree does not terminate (cycle)")
            break
        if id(n) in seen:
            problems.append(f"node object {kind(n)} occurs twice")
            continue
        seen[id(n)] = n
        k = kind(n)
        for side in ("left", "right"):
            ch = getattr(n, side)
            if ch is not None:
                if ch.parent is not n:
                    problems.append(f"{side} child of {k} has a different parent")
                stack.append(ch)
        if k in BIN:
            if n.left is None or n.right is None:
                problems.append(f"binary {k} lacks an operand")
        elif k in UN:
            nch = (n.left is not None) + (n.right is not None)
            if nch != 1:
                problems.append(f"unary {k} has {nch} operands")
            elif n.get_child() is None:
                problems.append(f"unary {k} operand is on the wrong side")
        elif k in ("const", "var"):
            if n.left is not None or n.right is not None:
                problems.append(f"leaf {k} has children")
            if k == "const" and n.value is None:
                problems.append("constant without a value")
            if k == "var" and not n.identifier:
                problems.append("variable without an identifier")
        else:
            problems.append(f"unknown node kind {k}")
    return problems
