"""Symbolic strings: a `str` subclass whose characters are z3 Int code points (concrete length).

The concrete payload is a run of private-use code points, so anything that slips to C level
(`float(s)`, `"".join`, `%` formatting) shows placeholders instead of silently using wrong text.
Python gives a subclass's reflected operators priority, so `"0" <= c`, `"" + c`, `"." == c` reach the proxy.
"""
from __future__ import annotations

from typing import Any, List, Tuple

import z3

from .symx import SymBool, Unsupported, cur

PRIVATE = 0xE000


class SymStr(str):
    chars: Tuple[Any, ...]

    def __new__(cls, chars: Any) -> "SymStr":
        chars = tuple(chars)
        o = super().__new__(cls, "".join(chr(PRIVATE + (i % 6000)) for i in range(len(chars))))
        o.chars = chars
        return o

    @staticmethod
    def lift(o: Any) -> Tuple[Any, ...]:
        if isinstance(o, SymStr):
            return o.chars
        if isinstance(o, str):
            return tuple(z3.IntVal(ord(ch)) for ch in o)
        raise Unsupported(f"cannot lift {type(o)} to a symbolic string")

    def __str__(self) -> str:
        return self

    def __repr__(self) -> str:
        return f"SymStr<{len(self.chars)}>"

    def __len__(self) -> int:
        return len(self.chars)

    def __bool__(self) -> bool:
        return len(self.chars) > 0

    def __iter__(self):
        return iter([SymStr((c,)) for c in self.chars])

    def __getitem__(self, i: Any) -> "SymStr":
        if isinstance(i, slice):
            return SymStr(self.chars[i])
        return SymStr((self.chars[i],))

    def __add__(self, o: Any) -> "SymStr":
        if not isinstance(o, str):
            return NotImplemented
        return SymStr(self.chars + SymStr.lift(o))

    def __radd__(self, o: Any) -> "SymStr":
        if not isinstance(o, str):
            return NotImplemented
        return SymStr(SymStr.lift(o) + self.chars)

    def eq_term(self, o: Any) -> Any:
        oc = SymStr.lift(o)
        if len(oc) != len(self.chars):
            return z3.BoolVal(False)
        if not oc:
            return z3.BoolVal(True)
        return z3.And([a == b for a, b in zip(self.chars, oc)])

    def __eq__(self, o: Any) -> Any:  # type: ignore[override]
        if not isinstance(o, str):
            return False
        t = z3.simplify(self.eq_term(o))
        if z3.is_true(t):
            return True
        if z3.is_false(t):
            return False
        return SymBool(t)

    def __ne__(self, o: Any) -> Any:  # type: ignore[override]
        r = self.__eq__(o)
        if isinstance(r, SymBool):
            return SymBool(z3.Not(r.z))
        return not r

    def _cmp(self, o: Any, op: Any) -> Any:
        if not isinstance(o, str):
            return NotImplemented
        oc = SymStr.lift(o)
        if len(oc) == 1 and len(self.chars) == 1:
            return SymBool(op(self.chars[0], oc[0]))
        raise Unsupported("ordering of multi-character symbolic strings")

    def __lt__(self, o: Any) -> Any:
        return self._cmp(o, lambda a, b: a < b)

    def __le__(self, o: Any) -> Any:
        return self._cmp(o, lambda a, b: a <= b)

    def __gt__(self, o: Any) -> Any:
        return self._cmp(o, lambda a, b: a > b)

    def __ge__(self, o: Any) -> Any:
        return self._cmp(o, lambda a, b: a >= b)

    def __hash__(self) -> int:  # type: ignore[override]
        # equal-length symbolic strings share one hash, so dict look-ups fall through to __eq__ (solver);
        # a dict with concrete keys of other hashes must be wrapped in SymKeyDict to be searched symbolically
        return str.__hash__(self)

    def __contains__(self, o: Any) -> bool:  # type: ignore[override]
        if isinstance(o, str) and len(o) == 1:
            oc = SymStr.lift(o)[0]
            return bool(SymBool(z3.Or([c == oc for c in self.chars]))) if self.chars else False
        raise Unsupported("substring test on a symbolic string")

    # -- whitespace stripping, modelled on Python's str.isspace for every code point -----------------------------
    @staticmethod
    def is_space(c: Any) -> Any:
        singles = [32, 133, 160, 5760, 8232, 8233, 8239, 8287, 12288]
        return z3.Or([z3.And(c >= 9, c <= 13), z3.And(c >= 28, c <= 31), z3.And(c >= 8192, c <= 8202)] + [c == v for v in singles])

    def _strip(self, chars: Any, left: bool, right: bool) -> "SymStr":
        if chars is not None:
            raise Unsupported("strip with an explicit character set on a symbolic string")
        cs = list(self.chars)
        if left:
            while cs and cur().branch(SymStr.is_space(cs[0])):
                cs.pop(0)
        if right:
            while cs and cur().branch(SymStr.is_space(cs[-1])):
                cs.pop()
        return SymStr(cs)

    def strip(self, chars: Any = None) -> "SymStr":  # type: ignore[override]
        return self._strip(chars, True, True)

    def lstrip(self, chars: Any = None) -> "SymStr":  # type: ignore[override]
        return self._strip(chars, True, False)

    def rstrip(self, chars: Any = None) -> "SymStr":  # type: ignore[override]
        return self._strip(chars, False, True)

    def isspace(self) -> bool:  # type: ignore[override]
        return bool(self.chars) and all(cur().branch(SymStr.is_space(c)) for c in self.chars)

    # -- character classes, exact for every code point: the range tables are computed from the running
    #    interpreter's own str methods (so `c.isdigit()` is true for U+00B2, U+0663, U+FF12 ... as in Python)
    _class_ranges: dict = {}

    @staticmethod
    def class_ranges(name: str) -> list:
        r = SymStr._class_ranges.get(name)
        if r is None:
            r, lo, pred = [], None, getattr(str, name)
            for cp in range(0x110000):
                if pred(chr(cp)):
                    if lo is None:
                        lo = cp
                elif lo is not None:
                    r.append((lo, cp - 1))
                    lo = None
            if lo is not None:
                r.append((lo, 0x10FFFF))
            SymStr._class_ranges[name] = r
        return r

    def _all_in_class(self, name: str) -> bool:
        if not self.chars:
            return False
        for c in self.chars:
            if isinstance(c, int):
                if not getattr(str, name)(chr(c)):
                    return False
                continue
            rs = SymStr.class_ranges(name)
            if not cur().branch(z3.Or([(c == lo) if lo == hi else z3.And(c >= lo, c <= hi) for lo, hi in rs])):
                return False
        return True

    def isdigit(self) -> bool:  # type: ignore[override]
        return self._all_in_class("isdigit")

    def isdecimal(self) -> bool:  # type: ignore[override]
        return self._all_in_class("isdecimal")

    def isnumeric(self) -> bool:  # type: ignore[override]
        return self._all_in_class("isnumeric")

    def isalnum(self) -> bool:  # type: ignore[override]
        return self._all_in_class("isalnum")

    def startswith(self, prefix: Any, *a: Any) -> bool:  # type: ignore[override]
        if a or not isinstance(prefix, str):
            raise Unsupported("startswith with offsets / tuples on a symbolic string")
        n = len(prefix)
        return len(self.chars) >= n and bool(SymStr(self.chars[:n]) == prefix)

    def endswith(self, suffix: Any, *a: Any) -> bool:  # type: ignore[override]
        if a or not isinstance(suffix, str):
            raise Unsupported("endswith with offsets / tuples on a symbolic string")
        n = len(suffix)
        return len(self.chars) >= n and bool(SymStr(self.chars[len(self.chars) - n:]) == suffix)

    def _unmodelled(self, *a: Any, **k: Any) -> Any:
        raise Unsupported("string method not modelled on a symbolic string")

    def _ascii_only(self, what: str) -> None:
        for c in self.chars:
            if not isinstance(c, int) and cur().branch(c >= 128):
                raise Unsupported(f"str.{what} of a non-ASCII symbolic character (Unicode case tables are not modelled)")

    def lower(self) -> "SymStr":  # type: ignore[override]
        self._ascii_only("lower")
        return SymStr([z3.If(z3.And(c >= 65, c <= 90), c + 32, c) for c in self.chars])

    def upper(self) -> "SymStr":  # type: ignore[override]
        self._ascii_only("upper")
        return SymStr([z3.If(z3.And(c >= 97, c <= 122), c - 32, c) for c in self.chars])

    def isalpha(self) -> bool:  # type: ignore[override]
        return self._all_in_class("isalpha")

    split = rsplit = replace = find = index = count = join = partition = _unmodelled  # type: ignore[assignment]
    translate = casefold = title = swapcase = zfill = center = ljust = rjust = encode = format = splitlines = _unmodelled  # type: ignore[assignment]

    def concrete(self, m: Any) -> str:
        out = []
        for c in self.chars:
            v = m.eval(c, model_completion=True)
            out.append(chr(v.as_long()))
        return "".join(out)


def fresh_string(n: int, name: str = "s") -> SymStr:
    c = cur()
    chars = [z3.Int(f"{name}{i}") for i in range(n)]
    for ch in chars:
        c.add(z3.And(ch >= 0, ch <= 0x10FFFF))
    return SymStr(chars)


class SymKeyDict(dict):
    """dict whose membership / lookup compares a symbolic key against each (concrete) key with the solver."""

    def _find(self, k: Any) -> Any:
        if not isinstance(k, SymStr):
            return dict.get(self, k, KeyError)
        for key in dict.keys(self):
            if k == key:
                return dict.__getitem__(self, key)
        return KeyError

    def __contains__(self, k: Any) -> bool:
        return self._find(k) is not KeyError

    def __getitem__(self, k: Any) -> Any:
        v = self._find(k)
        if v is KeyError:
            raise KeyError(k)
        return v

    def get(self, k: Any, default: Any = None) -> Any:
        v = self._find(k)
        return default if v is KeyError else v
