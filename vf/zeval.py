"""Independent exact evaluators of expression trees.

zeval : tree -> z3 Real term over the variables (plus side conditions = domain of definition)
ceval : tree + concrete assignment -> Fraction (exact) / float (only for non-integer powers) / None (undefined)

Both walk the real tree through left/right and node classes only; neither calls mathy_core's evaluate.
"""
from __future__ import annotations

import math
from fractions import Fraction
from typing import Any, Dict, List, Optional

import z3

from .shims import FACT, POWR
from .symx import Ctx, NeedsBound, SymNum, Unsupported, RV, frac_of
from .trees import kind

MAX_UNFOLD = 128


class Undefined(Exception):
    """The expression has no value anywhere (e.g. a NaN literal)."""


def var(name: str) -> Any:
    return z3.Real(f"v_{name}")


def _is_var_const(t: Any) -> bool:
    return z3.is_const(t) and t.decl().kind() == z3.Z3_OP_UNINTERPRETED and t.decl().name().startswith("v_")


def _is_payload_symbol(t: Any) -> bool:
    return z3.is_const(t) and t.decl().kind() == z3.Z3_OP_UNINTERPRETED and not t.decl().name().startswith("v_")


def mentions_variable(t: Any) -> bool:
    seen = set()
    stack = [t]
    while stack:
        x = stack.pop()
        if x.get_id() in seen:
            continue
        seen.add(x.get_id())
        if _is_var_const(x):
            return True
        stack.extend(x.children())
    return False


def is_symbolic(t: Any) -> bool:
    return frac_of(z3.simplify(t)) is None


def _ipow(b: Any, n: int) -> Any:
    r: Any = z3.RealVal(1)
    for _ in range(n):
        r = r * b
    return r


def _simplest_between(lo: Fraction, hi: Fraction) -> Fraction:
    """The fraction with the smallest denominator in [lo, hi] (0 < lo <= hi), by continued fractions."""
    fl = lo.numerator // lo.denominator
    if fl == lo:
        return Fraction(fl)
    if fl + 1 <= hi:
        return Fraction(fl + 1)
    rest = _simplest_between(1 / (hi - fl), 1 / (lo - fl))
    return fl + 1 / rest


def unround(v: Any) -> Any:
    """A concrete float constant stands for the simplest rational it rounds to (4 / -5 folded to -0.8 means -4/5,
    1 / 200000 / 300000 folded to 1.6666666666666667e-11 means 1/60000000000): 'up to floating-point rounding of
    constants the rule folded'.  The simplest rational within 2e-15 (relative, a few ulps) of the float is taken when its
    denominator is below 10**12; other floats keep their exact binary value."""
    if isinstance(v, float) and v == v and v not in (float("inf"), float("-inf")) and v != 0:
        f = Fraction(v)
        a = abs(f)
        eps = a * 2 / 10**15
        g = _simplest_between(a - eps, a + eps)
        if g.denominator < 10**12 and g.numerator < 10**15:
            return g if f > 0 else -g
    return v


def zeval(node: Any, dom: List[Any], ctx: Optional[Ctx] = None) -> Any:
    k = kind(node)
    if k == "const":
        v = node.value
        if type(v) is SymNum or isinstance(v, SymNum):
            return v.z
        if v is None:
            raise Undefined("constant without value")
        try:
            return RV(unround(v if not hasattr(v, "item") else v.item()))
        except Unsupported:
            raise Undefined("non-finite constant")
    if k == "var":
        return var(node.identifier)
    if k in ("neg", "sgn", "abs", "fact"):
        child = node.left if node.left is not None else node.right
        c = zeval(child, dom, ctx)
        if k == "neg":
            return -c
        if k == "sgn":
            return z3.If(c < 0, z3.RealVal(-1), z3.If(c > 0, z3.RealVal(1), z3.RealVal(0)))
        if k == "abs":
            return z3.If(c < 0, -c, c)
        cs = ctx.norm(c) if ctx is not None else z3.simplify(c)
        cv = frac_of(cs)
        if cv is None and ctx is not None and _is_payload_symbol(cs):
            try:
                cv = ctx.realize(cs)
            except NeedsBound:
                cv = None
        if cv is not None:
            # math.factorial(int(v)): truncation toward zero, error (undefined) when negative
            n = int(cv)
            if n < 0 or n > 40:
                raise Undefined("factorial out of range")
            return z3.RealVal(math.factorial(n))
        dom.append(c >= 0)
        return FACT(c)
    l = zeval(node.left, dom, ctx)
    r = zeval(node.right, dom, ctx)
    if k == "add":
        return l + r
    if k == "sub":
        return l - r
    if k == "mul":
        return l * r
    if k == "div":
        dom.append(r != 0)
        return l / r
    if k == "pow":
        rs = ctx.norm(r) if ctx is not None else z3.simplify(r)
        ev = frac_of(rs)
        if ev is None and ctx is not None and _is_payload_symbol(rs):
            # a bare payload symbol in exponent position has a small integer domain by construction
            try:
                ev = ctx.realize(rs)
            except NeedsBound:
                ev = None
        if ev is not None and ev.denominator == 1 and abs(ev) <= MAX_UNFOLD:
            n = int(ev)
            if n >= 0:
                return _ipow(l, n)
            dom.append(l != 0)
            return 1 / _ipow(l, -n)
        dom.append(l > 0)
        return POWR(l, r)
    raise Unsupported(f"zeval: unexpected node kind {k}")


def zeval_top(root: Any, ctx: Optional[Ctx] = None):
    """-> ('expr', term, dom) or ('eq', lterm, rterm, dom)"""
    dom: List[Any] = []
    if kind(root) == "eq":
        l = zeval(root.left, dom, ctx)
        r = zeval(root.right, dom, ctx)
        return ("eq", l, r, dom)
    return ("expr", zeval(root, dom, ctx), None, dom)


def powr_axioms(*terms: Any) -> List[Any]:
    """Instances of the mathematical facts powr(b, n) = b^n for small integers n, one set per
    occurrence of the uninterpreted power (all occurrences are guarded by b > 0 in the domain)."""
    seen = set()
    apps = []
    stack = [t for t in terms if t is not None]
    while stack:
        x = stack.pop()
        if x.get_id() in seen:
            continue
        seen.add(x.get_id())
        if z3.is_app(x) and x.decl().name() == "powr":
            apps.append(x)
        stack.extend(x.children())
    out: List[Any] = []
    for a in apps:
        b, e = a.arg(0), a.arg(1)
        for n in range(-12, 13):
            val = _ipow(b, n) if n >= 0 else 1 / _ipow(b, -n)
            out.append(z3.Implies(e == n, a == val))
    return out


def uses_uf(t: Any) -> bool:
    seen = set()
    stack = [t]
    while stack:
        x = stack.pop()
        if x.get_id() in seen:
            continue
        seen.add(x.get_id())
        if z3.is_app(x) and x.decl().name() in ("powr", "factr"):
            return True
        stack.extend(x.children())
    return False


# ------------------------------------------------------------------------------------------------


def to_frac(v: Any) -> Optional[Fraction]:
    if isinstance(v, bool):
        return Fraction(int(v))
    if isinstance(v, int):
        return Fraction(v)
    if isinstance(v, Fraction):
        return v
    if hasattr(v, "item"):
        v = v.item()
        if isinstance(v, int):
            return Fraction(v)
    if isinstance(v, float):
        if v != v or v in (float("inf"), float("-inf")):
            return None
        return Fraction(v)
    return None


def ceval(node: Any, env: Dict[str, Any]) -> Any:
    """Exact value (Fraction), float for irrational powers, or None when undefined."""
    k = kind(node)
    if k == "const":
        return to_frac(unround(node.value if not hasattr(node.value, "item") else node.value.item()))
    if k == "var":
        v = env.get(node.identifier)
        return None if v is None else to_frac(v)
    if k in ("neg", "sgn", "abs", "fact"):
        child = node.left if node.left is not None else node.right
        c = ceval(child, env)
        if c is None:
            return None
        if k == "neg":
            return -c
        if k == "sgn":
            return Fraction((c > 0) - (c < 0))
        if k == "abs":
            return abs(c)
        n = int(c)
        if n < 0 or n > 200:
            return None
        return Fraction(math.factorial(n))
    if k == "eq":
        raise Unsupported("ceval on an equation")
    l = ceval(node.left, env)
    r = ceval(node.right, env)
    if l is None or r is None:
        return None
    if k == "add":
        return l + r
    if k == "sub":
        return l - r
    if k == "mul":
        return l * r
    if k == "div":
        if r == 0:
            return None
        return (Fraction(l) / Fraction(r)) if not isinstance(l, float) and not isinstance(r, float) else l / r
    if k == "pow":
        if isinstance(r, Fraction) and r.denominator == 1 and isinstance(l, Fraction):
            n = int(r)
            if abs(n) > 4096:
                return None
            if n >= 0:
                return l**n
            if l == 0:
                return None
            return Fraction(1) / (l ** (-n))
        try:
            if l <= 0:
                return None
            return float(l) ** float(r)
        except (OverflowError, ValueError):
            return None
    raise Unsupported(f"ceval: unexpected node kind {k}")


def close(a: Any, b: Any, rel: float = 1e-12) -> bool:
    if a is None or b is None:
        return True
    if a == b:
        return True
    try:
        fa, fb = float(a), float(b)
    except OverflowError:
        return False
    return math.isclose(fa, fb, rel_tol=rel, abs_tol=0.0)
