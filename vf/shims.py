"""Environment stubs: numpy / math / random as seen by mathy_core while it runs on proxies.

Each shim forwards to the real module when no proxy is involved, so concrete (replay / fallback)
runs go through the real library.  Every stub is part of the claim and is listed in the evidence.
"""
from __future__ import annotations

import math as _math
import random as _random
from contextlib import contextmanager
from fractions import Fraction
from typing import Any, List

import numpy as _np
import z3

from .symx import NeedsBound, SymBool, SymNum, Unsupported, _tag_and, cur, RV

STUBS = [
    "np.sqrt(v): nan if v<0 else the real numpy sqrt of the realised value (consumers: isnan, int(sqrt+1))",
    "np.min/np.max: fold with symbolic comparison",
    "np.power(a,b): numpy dtype contract - two Python ints: ValueError if b<0, exact value wrapped into int64; "
    "otherwise real power for an integral exponent, uninterpreted powr(a,b) for other exponents",
    "np.absolute: If(v<0,-v,v) as a numpy scalar (int64 for a Python int that fits, -2^63 maps to itself; float64 for floats); "
    "np.seterr: no-op; np.format_float_positional: realise, then real numpy",
    "numpy scalars (results of np.power / np.absolute) keep their kind in later + - * /: int64 results wrap, a Python int "
    "operand beyond int64 raises OverflowError (numpy >= 2), x / 0 gives +-inf or nan instead of raising, isinstance(x, int) "
    "is False; // % ** with a numpy scalar are not modelled (path inconclusive)",
    "math.isnan: False on (finite) proxies; math.factorial: realise then real; math.isclose: real",
    "float(v) inside mathy_core.expressions: the same real value typed as a Python float",
]

INT64 = 2**63


def _is_sym(*xs: Any) -> bool:
    return any(type(x) is SymNum or isinstance(x, SymNum) for x in xs)


POWR = z3.Function("powr", z3.RealSort(), z3.RealSort(), z3.RealSort())
FACT = z3.Function("factr", z3.RealSort(), z3.RealSort())


class NpShim:
    """Stands in for the `np` name inside mathy_core.util / mathy_core.expressions."""

    nan = _np.nan
    inf = _np.inf

    def __getattr__(self, name: str) -> Any:  # anything not modelled: real numpy (raises on proxies)
        real = getattr(_np, name)
        if callable(real):
            def guarded(*a: Any, **k: Any) -> Any:
                if _is_sym(*a) or _is_sym(*k.values()):
                    raise Unsupported(f"numpy.{name} on a symbolic value")
                return real(*a, **k)
            return guarded
        return real

    @staticmethod
    def seterr(*a: Any, **k: Any) -> Any:
        return {}

    @staticmethod
    def sqrt(v: Any) -> Any:
        if not _is_sym(v):
            old = _np.seterr(invalid="ignore")
            try:
                return _np.sqrt(v)
            finally:
                _np.seterr(**old)
        c = cur()
        if c.branch(v.z < 0):
            return float("nan")
        return _np.sqrt(v.concrete())

    @staticmethod
    def _fold(xs: Any, less: Any) -> Any:
        xs = list(xs)
        if not xs:
            raise ValueError("zero-size array to reduction operation")
        best = xs[0]
        for x in xs[1:]:
            if less(x, best):
                best = x
        return best

    @staticmethod
    def min(xs: Any, *a: Any, **k: Any) -> Any:
        xs = list(xs)
        if not _is_sym(*xs):
            return _np.min(xs, *a, **k)
        return NpShim._fold(xs, lambda x, b: bool(x < b))

    @staticmethod
    def max(xs: Any, *a: Any, **k: Any) -> Any:
        xs = list(xs)
        if not _is_sym(*xs):
            return _np.max(xs, *a, **k)
        return NpShim._fold(xs, lambda x, b: bool(x > b))

    @staticmethod
    def absolute(v: Any) -> Any:
        if not _is_sym(v):
            return _np.absolute(v)
        # numpy hands back a numpy scalar: int64 for Python ints that fit (abs(-2^63) wraps to itself), float64 for floats
        c = cur()
        if v.npy == "f64" or not v.is_int():
            return SymNum(z3.If(v.z < 0, -v.z, v.z), False, "f64")
        if v.npy is None and c.branch(z3.Or(v.z >= INT64, v.z < -INT64)):
            raise Unsupported("numpy.absolute of a Python int beyond int64 (uint64 / object result)")
        if c.branch(v.z == -INT64):
            return SymNum(v.z, True, "i64")
        return SymNum(z3.If(v.z < 0, -v.z, v.z), True, "i64")

    abs = absolute

    @staticmethod
    def format_float_positional(v: Any, *a: Any, **k: Any) -> str:
        if _is_sym(v):
            v = v.concrete()
        return _np.format_float_positional(v, *a, **k)

    @staticmethod
    def power(a: Any, b: Any) -> Any:
        if not _is_sym(a, b):
            return _np.power(a, b)
        c = cur()
        az, at = SymNum.lift(a)
        bz, bt = SymNum.lift(b)
        both = _tag_and(at, bt)
        both_int = both if isinstance(both, bool) else c.branch(both)
        if both_int:
            # numpy: Python ints are converted to int64 first (OverflowError when they do not fit);
            # integer ** negative integer is an error; result dtype int64 (wraps)
            if c.branch(z3.Or(az >= INT64, az < -INT64, bz >= INT64, bz < -INT64)):
                raise OverflowError("Python int too large to convert to C long")
            if c.branch(bz < 0):
                raise ValueError("Integers to negative integer powers are not allowed.")
            n = c.realize(bz)
            r: Any = z3.RealVal(1)
            for _ in range(int(n)):
                r = r * az
            if c.branch(z3.And(r < INT64, r >= -INT64)):
                return SymNum(r, True, "i64")
            # wrapped into int64: r mod 2^64 re-centred
            k = z3.ToInt((r + INT64) / (2 * INT64))
            return SymNum(r - z3.ToReal(k) * (2 * INT64), True, "i64")
        # float power
        if c.branch(z3.IsInt(bz)):
            try:
                n = int(c.realize(bz))
            except NeedsBound:
                return SymNum(POWR(az, bz), False, "f64")
            if n >= 0:
                r = z3.RealVal(1)
                for _ in range(n):
                    r = r * az
                return SymNum(r, False, "f64")
            if c.branch(az == 0):
                return float("inf")
            r = z3.RealVal(1)
            for _ in range(-n):
                r = r * az
            return SymNum(1 / r, False, "f64")
        return SymNum(POWR(az, bz), False, "f64")


class MathShim:
    """Stands in for the `math` name inside mathy_core modules."""

    def __getattr__(self, name: str) -> Any:
        real = getattr(_math, name)
        if callable(real):
            def guarded(*a: Any, **k: Any) -> Any:
                if _is_sym(*a):
                    a = tuple(x.concrete() if _is_sym(x) else x for x in a)
                return real(*a, **k)
            return guarded
        return real

    @staticmethod
    def isnan(v: Any) -> bool:
        if _is_sym(v):
            return False
        return _math.isnan(v)

    @staticmethod
    def factorial(v: Any) -> Any:
        if _is_sym(v):
            v = v.concrete()
        return _math.factorial(v)


class _FloatMeta(type):
    def __instancecheck__(cls, o: Any) -> bool:
        return isinstance(o, float)

    def __call__(cls, x: Any = 0.0) -> Any:  # type: ignore[override]
        if _is_sym(x):
            return SymNum(x.z, False)
        return float(x)


class FloatShim(metaclass=_FloatMeta):
    """`float` as seen inside mathy_core.expressions: float(proxy) keeps the value symbolic (typed float)."""


NP = NpShim()
MATH = MathShim()


@contextmanager
def installed():
    """Install the numpy/math shims into the already imported mathy_core modules."""
    import mathy_core.expressions as E
    import mathy_core.util as U

    saved = []
    for mod in (E, U):
        for name, shim in (("np", NP), ("math", MATH)):
            if hasattr(mod, name):
                saved.append((mod, name, getattr(mod, name)))
                setattr(mod, name, shim)
    had_float = "float" in vars(E)
    old_float = vars(E).get("float")
    E.float = FloatShim  # type: ignore[attr-defined]
    try:
        yield
    finally:
        for mod, name, old in saved:
            setattr(mod, name, old)
        if had_float:
            E.float = old_float  # type: ignore[attr-defined]
        else:
            del E.float  # type: ignore[attr-defined]
